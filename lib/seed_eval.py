#!/usr/bin/env python3
"""seed_eval.py <seed-id> <source-dir> <property> [more properties to run ...]

Confirms an independently produced property-breaking change and runs our checks against it:
  1. fresh scratch worktree: apply patch.diff, build, `make check` must pass 15/15, demo/run.sh must FAIL;
     revert, rebuild, demo/run.sh must PASS;
  2. apply the patch to /repo, run the quick tier of the given properties, undo the patch (always);
  3. store patch, demo and meta.json under /verif/seeded/<seed-id>/.
"""
import sys, os, subprocess, json, shutil, time, re

VERIF = os.path.dirname(os.path.dirname(os.path.abspath(__file__)))


def sh(cmd, **kw):
    return subprocess.run(cmd, shell=True, capture_output=True, text=True, **kw)


def main():
    sid, src, props = sys.argv[1], sys.argv[2], sys.argv[3:]
    patch = os.path.join(src, 'patch.diff')
    wt = '/tmp/ev-%s' % sid
    sh('git -C /repo worktree remove --force %s' % wt)
    r = sh('%s/lib/mk_worktree.sh %s' % (VERIF, wt))
    meta = {'seed_id': sid, 'breaks_property': props[0], 'source': 'independent sub-agent given only the property text and a scratch worktree',
            'evaluated_at': time.strftime('%Y-%m-%dT%H:%M:%SZ', time.gmtime()), 'repo_head': sh('git -C /repo rev-parse --short HEAD').stdout.strip()}
    try:
        a = sh('git -C %s apply %s' % (wt, patch))
        meta['patch_applies'] = a.returncode == 0
        b = sh('cd %s && make -j8 2>&1 | tail -3 && make check 2>&1 | grep -E "^# (PASS|FAIL|ERROR)"' % wt)
        meta['make_check_with_change'] = ' '.join(b.stdout.split())[-120:]
        meta['tests_pass_with_change'] = '# PASS: 15' in ' '.join(b.stdout.split()).replace('  ', ' ') and '# FAIL: 0' in ' '.join(b.stdout.split()).replace('  ', ' ')
        d1 = sh('cd %s/demo && sh ./run.sh %s' % (src, wt), timeout=900)
        meta['demo_with_change_rc'] = d1.returncode
        meta['demo_with_change_tail'] = (d1.stdout + d1.stderr)[-600:]
        sh('git -C %s checkout -- . && cd %s && make -j8' % (wt, wt))
        d2 = sh('cd %s/demo && sh ./run.sh %s' % (src, wt), timeout=900)
        meta['demo_without_change_rc'] = d2.returncode
        meta['confirmed'] = bool(meta['patch_applies'] and meta['tests_pass_with_change'] and d1.returncode != 0 and d2.returncode == 0)
    finally:
        sh('git -C /repo worktree remove --force %s' % wt)
        sh('git -C /repo worktree prune')
    # our checks against it
    results = {}
    if meta.get('patch_applies'):
        if sh('git -C /repo status --porcelain --untracked-files=no').stdout.strip():
            print('refusing: /repo has uncommitted changes')
            return 2
        try:
            sh('git -C /repo apply %s' % patch)
            for p in props:
                t0 = time.time()
                c = sh('cd %s && ./verif check %s --tier quick' % (VERIF, p))
                viol = [l for l in c.stdout.splitlines() if l.startswith('VIOLATION')]
                first = ''
                m = re.search(r'VIOLATION[^\n]*\n\s+case: ([^\n]*)\n\s+what: ([^\n]*)', c.stdout)
                if m:
                    first = 'case %s: %s' % (m.group(1)[:160], m.group(2)[:300])
                results[p] = {'rc': c.returncode, 'violation_lines': len(viol), 'first': first, 'wall_s': round(time.time() - t0, 1),
                              'verdict_line': c.stdout.strip().splitlines()[-1][:200] if c.stdout.strip() else ''}
                print('  %s on seeded change %s: rc=%d violations=%d %s' % (p, sid, c.returncode, len(viol), first[:200]))
        finally:
            sh('git -C /repo checkout -- .')
            sh('cd %s && git checkout -- evidence/' % VERIF)     # evidence written against a modified tree is not evidence
    meta['our_checks'] = results
    meta['detected_by'] = [p for p, r in results.items() if r['rc'] == 1 and r['violation_lines'] > 0]
    dst = os.path.join(VERIF, 'seeded', sid)
    if os.path.exists(dst):
        shutil.rmtree(dst)
    os.makedirs(dst)
    shutil.copy(patch, os.path.join(dst, 'patch.diff'))
    if os.path.isdir(os.path.join(src, 'demo')):
        shutil.copytree(os.path.join(src, 'demo'), os.path.join(dst, 'demo'), ignore=shutil.ignore_patterns('*.o', 'demo', 'a.out', '*.mtbl', '*.bin'))
    if os.path.exists(os.path.join(src, 'NOTES.md')):
        shutil.copy(os.path.join(src, 'NOTES.md'), os.path.join(dst, 'NOTES.md'))
    with open(os.path.join(dst, 'meta.json'), 'w') as f:
        json.dump(meta, f, indent=1)
    print('seed %s: confirmed=%s detected_by=%s' % (sid, meta.get('confirmed'), meta['detected_by']))
    return 0


sys.exit(main())
