"""Check definitions: which harness jobs decide which property, per tier."""

MC = 'model_checking'
FE = 'fault_enumeration'


def H(harness, flavor='asan', **kw):
    d = dict(harness=harness, flavor=flavor)
    d.update(kw)
    return d


CHECKS = {}
NOT_APPLICABLE = {}
HOOK_COMMITS = ['d1d2514']
NOTES = ('All checks are exhaustive enumerations executed on the C sources of the current /repo working tree '
         '(compiled by the driver with -DMTBL_VERIF); see DESIGN.md. Replay: ./verif replay <file>.')
ENGINES = [
    dict(name='seqx', path='harness/ (vh.h, tbl.h, icodec.h; h_table.c h_gate.c h_lookup.c h_merger.c h_sorter.c h_encode.c h_compress.c h_varint.c h_crc.c)',
         serves_properties=['C01', 'C02', 'C04', 'C06', 'C08', 'C09', 'C10', 'C11', 'C15', 'C16', 'C17'],
         kind_free_text='bounded-exhaustive sequential explorer: odometer enumeration of inputs/configurations on the real code, lock-step C reference models, independent MTBL codec'),
    dict(name='bfs', path='harness/bfs.h (h_riter.c h_merger.c h_fileset.c h_res.c)', serves_properties=['C03', 'C05', 'C07', 'C18'],
         kind_free_text='explicit-state search over real objects: a state is an operation history replayed on fresh objects, deduplicated by a canonical hash of private fields plus reference state, run to a fixpoint or depth bound; undeduplicated tree as cross-check'),
    dict(name='vsched', path='harness/vsched.c vsched.h h_sched.c', serves_properties=['C13', 'C14', 'C18'],
         kind_free_text='deterministic serialising scheduler owning every pthread operation of threadpool.c; stateless DFS over schedules with preemption / spurious-wake-up bounds and happens-before state caching; ThreadSanitizer variant'),
    dict(name='envshim', path='harness/ (h_wfault.c h_ropen.c h_cksum.c)', serves_properties=['C12', 'C19', 'C20'],
         kind_free_text='compile-time seams for write(2), mmap, clock_gettime, mkstemp and the decode primitives; exhaustive enumeration of fault scripts / damage patterns; assertion, abort and exit captured in-process'),
]

CHECKS['C16'] = dict(
    level=MC, engine='seqx',
    technique='bounded-exhaustive enumeration of values and byte strings on the real codec functions, compared with an independent base-128/little-endian reference',
    text='Every 32-bit value (thorough) and structured 64-bit families are pushed through the real encode/decode/length functions and compared byte-for-byte with an independent reference; decoders are also run on every short byte string. Exhaustive within the stated value sets, so an off-by-one in any width branch is certain to be hit.',
    jobs=[
        dict(name='varint32', spec=H('h_varint.c', 'asan'), args=['v32'], tiers=['quick']),
        dict(name='varint32-all', spec=H('h_varint.c', 'fast'), args=['v32'], tiers=['thorough']),
        dict(name='varint64', spec=H('h_varint.c', 'asan'), args=['v64']),
        dict(name='fixed', spec=H('h_varint.c', 'asan'), args=['fixed']),
        dict(name='decoders', spec=H('h_varint.c', 'asan'), args=['dec']),
    ],
    states_key='cases', transitions_key='transitions', traces_key='cases',
    rule='every value / byte string of the stated families is one case; a signature is (codec, encoded length, alignment pair or terminator position)',
    bounds={'quick': '32-bit: all v < 2^22, +-4096 around 2^7k, top 8192; 64-bit: <=2 bits set/clear, 2^7k+-1, 4^10 group family; decoders: all strings len<=3, len<=9 over {00,01,7f,80,ff}; fixed: all alignments 0..7 x 0..7',
            'thorough': '32-bit: ALL 2^32 values; rest as quick with decoder strings up to length 11'},
    nonzero=['cases', 'transitions'],
    assumptions=['reference encoder is the textbook base-128 loop written in the harness', 'decoders are only called on buffers that contain a terminator or are at least 5/10 bytes long (their documented contract)'],
    budget={'quick': 200, 'thorough': 1500},
)

CHECKS['C17'] = dict(
    level=MC, engine='seqx',
    technique='bounded-exhaustive enumeration of buffers (length x alignment x content, every byte value at every position) on all three CRC entry points against a bit-at-a-time reference',
    text='Both implementations (SSE4.2 instructions and slicing-by-8 tables) and the public wrapper are called directly on every length 0..1100 at every alignment, on every byte value at every position of short buffers (which indexes every entry of all eight slicing tables) and on all 1-2 byte (thorough: 3 byte) buffers, and compared with a bit-wise Castagnoli reference and the standard check value.',
    jobs=[dict(name='crc', spec=H('h_crc.c', 'asan'), args=[]),
          dict(name='all-4-byte-buffers', spec=H('h_crc.c', 'fast'), args=['four'], tiers=['thorough'])],
    states_key='cases', transitions_key='transitions', traces_key='cases',
    rule='one case = (content family, length, alignment, patched position, value); signature = (min(len,24+len%8), alignment, family)',
    bounds={'quick': 'len 0..1100 x align 0..7 x 6 families; multiples of 4096 up to 64 KiB and 2^11..2^17, each -1/0/+1; every value at every position of len 1..16 (rest 00 / ff) x align 0..7; all 1- and 2-byte buffers',
            'thorough': 'len 0..4200, 2^k+-1 up to 2^22; positions in len 1..40; all 3-byte buffers; ALL 2^32 4-byte buffers'},
    nonzero=['cases', 'sse42_available'],
    assumptions=['host CPU offers SSE4.2 (otherwise the hardware path cannot run; the check then fails its vacuity guard rather than pass silently)'],
    budget={'quick': 200, 'thorough': 1500},
)

CHECKS['C15'] = dict(
    level=MC, engine='seqx',
    technique='bounded-exhaustive enumeration of (algorithm, level, buffer length, content family) through the real mtbl_compress/_level/_decompress; assertion failures captured in-process',
    text='Every length 0..64 (thorough 0..1000) x 7 content families x every algorithm value x every level in a boundary set (INT_MIN..INT_MAX, each library minimum-1..maximum+1) goes through the real compress/decompress pair; the oracle is exactly the statement: failure, or a byte-exact round trip, never an abort. Short buffers and extreme levels are where output-bound and clamping errors live, and they are covered completely.',
    jobs=[
        dict(name='small', spec=H('h_compress.c', 'asan'), args=['small']),
        dict(name='big', spec=H('h_compress.c', 'asan'), args=['big']),
        dict(name='names', spec=H('h_compress.c', 'asan'), args=['names'], shards=4),
    ],
    states_key='cases', transitions_key='transitions', traces_key='cases',
    rule='one case = (algorithm, with/without level, level, content family, length); signature = (algorithm, clamped level, min(len,16)+size class, family)',
    bounds={'quick': 'len 0..64 x 7 families x 8 algorithm values x levels {INT_MIN, INT_MIN+1, -131073..-131071, -10001..-9999, -100, lib min-1..max+1, INT_MAX-1, INT_MAX}; len 2^k+{-1,0,1}, k=7..20 x 3 levels; names: enum -2..9, all strings len<=4 over 33 letters, one-edit neighbours, all case variants',
            'thorough': 'len 0..1000; k up to 24'},
    nonzero=['cases', 'compress_ok', 'compress_refused'],
    assumptions=['the four compression libraries themselves are trusted'],
    budget={'quick': 240, 'thorough': 1800},
)

_TBL = H('h_table.c', 'asan')
_tbl_bounds = {'quick': 'structure sweep: all increasing key sequences of length<=4 from K9={e,00,0000,01,7f,80,8000,ff,ffff} x value sizes {0,1,600}^n x 6 compression types x restart {1,2,16} x block size 1024 x foreign prefix {0,13}; cadence sweep n in {r-1,r,r+1,2r,2r+1,100,1000} for r in {1,2,3,16,17} x 3 key families; length sweep (klen,vlen) in {0,1,127,128,129,16383,16384,16385}^2 alone and between two small entries; level sweep 40 levels INT_MIN..INT_MAX x 6 types; option magnitudes: block size {1,1023,1025,65536,2^31-1,2^31,2^32-1,2^32,2^32+1,2^40+5,2^63,2^64-1} x restart {1,16,1000} x 6 types x prefix {0,13}',
               'thorough': 'as quick with sequences of length<=5, value sizes {0,1,600,1100}, restart {1,2,3,16,17}, block size {1024,1025,4096}, prefix {0,1,13,4096}, lengths up to 2^21; giant: one uncompressed value of 2^31+2^20 bytes (a stored block above the per-call write limit of the kernel), default options with one value of 2^30 incompressible bytes, and zlib with block size 2^33 holding two values of 2^31 zero bytes (one data block above 4 GiB)'}

CHECKS['C01'] = dict(
    level=MC, engine='seqx',
    technique='bounded-exhaustive enumeration of (key sequence, value sizes, writer configuration) through the real writer and reader, compared with the input sequence; real mtbl_dump binary on a deterministic subset',
    text='Every table of the bounded input/configuration space is written by the real writer into a memory file, opened by the real reader and iterated; the result must be the input sequence byte for byte. The space is built around the format\'s boundaries (empty key, prefixes, 0x00/0xff bytes, varint width changes at 128 and 16384, entries larger than a block, every block-cut position, every compression type and level class, restart cadence, foreign prefix), which the 15 tests touch at two shapes only. Thorough tier: one value of 2^30 incompressible bytes under default options, and one zlib data block above 4 GiB (sizes at which zlib\'s 32-bit counters wrap).',
    jobs=[   # cheap jobs first: when the wall-clock budget ends, it is the big sweep that is cut short
        dict(name='level', spec=_TBL, args=['level'], tools=['mtbl_dump']),
        dict(name='separators-16bit', spec=_TBL, args=['sep16']),
        dict(name='madvise', spec=_TBL, args=['madvise']),
        dict(name='cadence', spec=_TBL, args=['cadence'], tools=['mtbl_dump']),
        dict(name='length', spec=_TBL, args=['length'], tools=['mtbl_dump']),
        dict(name='pool', spec=_TBL, args=['pool']),
        dict(name='struct', spec=_TBL, args=['struct'], tools=['mtbl_dump']),
        dict(name='giant', spec=H('h_table.c', 'fast'), args=['giant'], shards=1, tiers=['thorough']),
    ],
    states_key='cases', transitions_key='transitions', traces_key='cases',
    rule='one case = (writer configuration, key sequence, value sizes); signature = (compression, restart interval, #blocks<=6, max entries per block<=4, #shortened separators<=3, any multi-restart block)',
    bounds=_tbl_bounds,
    nonzero=['cases', 'multi_block_tables', 'tables_with_multi_restart_block', 'tool_runs'],
    assumptions=['value bytes are synthesized from (tag,length) by a fixed generator', 'pool sweep runs real free-running threads (the schedule dimension belongs to C13)'],
    budget={'quick': 400, 'thorough': 2400},
)
CHECKS['C09'] = dict(
    level=MC, engine='seqx',
    technique='bounded-exhaustive enumeration of writer inputs/configurations; every produced file is decoded and structurally checked by an independent MTBL implementation (icodec)',
    text='The same bounded space as C01; each file is parsed by a from-scratch decoder that shares no code with mtbl and checked against the format rules of the statement (contiguity, length prefix + CRC32C, index separators between last key and next first key, zero-padded 512-byte trailer with magic, restart validity and cadence, longest-common-prefix elision, the two-sided block size rule).',
    jobs=[
        dict(name='level', spec=_TBL, args=['level']),
        dict(name='separators-16bit', spec=_TBL, args=['sep16']),
        dict(name='cadence', spec=_TBL, args=['cadence']),
        dict(name='length', spec=_TBL, args=['length']),
        dict(name='pool', spec=_TBL, args=['pool']),      # pooled writers: the index entry of a block is built while later adds are already running (seed R7-C09)
        dict(name='struct', spec=_TBL, args=['struct']),
        dict(name='cross4g', spec=H('h_table.c', 'fast'), args=['cross4g'], shards=1, tiers=['thorough']),
    ],
    states_key='cases', transitions_key='transitions', traces_key='cases',
    rule='as C01', bounds=_tbl_bounds,
    nonzero=['cases', 'multi_block_tables', 'tables_with_multi_restart_block'],
    assumptions=['icodec is validated at start-up against the foreign sample files in /repo/t (see C11) and against the library on every case'],
    budget={'quick': 400, 'thorough': 2400},
)
CHECKS['C10'] = dict(
    level=MC, engine='seqx',
    technique='bounded-exhaustive enumeration of writer inputs/configurations; every mtbl_metadata_* accessor compared with the value an independent decoder computes from the file bytes; real mtbl_info binary on a subset',
    text='For every file of the bounded space the nine trailer statistics exposed by the accessors (and printed by mtbl_info) are compared with the truth recomputed from the bytes by the independent decoder: entries, data blocks, bytes of data blocks and of the index block including headers, key and value byte sums, index offset, block size, algorithm, version.',
    jobs=[
        dict(name='refused-adds', spec=H('h_gate.c', 'asan'), args=[]),
        dict(name='level', spec=_TBL, args=['level'], tools=['mtbl_info']),
        dict(name='cadence', spec=_TBL, args=['cadence'], tools=['mtbl_info']),
        dict(name='length', spec=_TBL, args=['length'], tools=['mtbl_info']),
        dict(name='pool', spec=_TBL, args=['pool']),
        dict(name='struct', spec=_TBL, args=['struct'], tools=['mtbl_info']),
    ],
    states_key='cases', transitions_key='transitions', traces_key='cases',
    rule='as C01', bounds=_tbl_bounds,
    nonzero=['cases', 'multi_block_tables', 'tool_runs', 'cases_with_refusal'],
    assumptions=['truth is what icodec derives from the bytes'],
    budget={'quick': 400, 'thorough': 2400},
)

CHECKS['C08'] = dict(
    level=MC, engine='seqx',
    technique='exhaustive enumeration of all key sequences with repetition up to a length bound through the real mtbl_writer_add, against a reference ordering gate; finished file decoded independently',
    text='All sequences of length <=4 (thorough <=6) WITH repetition over 8 short keys (empty key, prefix pairs, 0x7f/0x80, 0xffff) and over a second pool of 8 keys of 4-5 bytes whose leading bytes span 0x00..0xff x every assignment of small/block-filling values (so refusals happen right before and after a block cut, where the writer temporarily remembers a shortened separator) are added; each add result must equal the reference gate "strictly greater than the last accepted key", and the file must hold exactly the accepted entries with trailer counters to match. mtbl_writer_init is run on existing empty/non-empty files, symlinks (live, dangling, to a directory) and directories. Keys and values of 2^32 and 2^32+10 bytes (lengths the 32-bit entry header cannot hold; the source is one 2 MiB page set mapped 2049 times) are offered between two ordinary adds: they may be refused - which is how the repaired tree reads the property for entries the format cannot represent - or accepted, and then the finished file must hold them in full.',
    jobs=[dict(name='gate', spec=H('h_gate.c', 'asan'), args=[])],
    states_key='cases', transitions_key='transitions', traces_key='cases',
    rule='one case = (key index sequence, small/big value vector, configuration); signature = (#blocks, #refused, #accepted)',
    bounds={'quick': 'sequences of length<=4 over 8 short keys (4681) x 2^n value vectors x {restart 16, restart 1}, the same sequences over a second pool of 8 keys of 4-5 bytes (restart 16), compression none, block size 1024; 7 exclusive-create scenarios; keys and values of 2^32 and 2^32+10 bytes (virtual source: refused, or accepted and then read back in full)',
            'thorough': 'length<=5 (37449 sequences) with three configurations incl. lz4; length 6 (262144 sequences x 64 value vectors) in one configuration; oversize keys and values as quick'},
    nonzero=['cases', 'cases_with_refusal', 'excl_cases'],
    assumptions=['the reference gate is the property statement itself (unsigned byte-wise order, proper prefix first)', 'the finished file is judged by the independent decoder'],
    budget={'quick': 240, 'thorough': 1800},
)

CHECKS['C02'] = dict(
    level=MC, engine='seqx',
    technique='bounded-exhaustive enumeration of (table, query) pairs on the real reader: get / get_prefix / get_range drained and compared with a filter of the reference table',
    text='Tables: every ordered pair of the 31 strings of length<=2 over {00,01,7f,80,ff} with the block cut between them, plus every pair of the 320 strings of length 3-4 over {00,01,fe,ff} whose first differing bytes are adjacent (the 16-bit big-endian branch of the shortest-separator computation, with and without carry), so that every branch of that computation produces an index key, every 3-subset of that universe x every small/block-filling value vector, and the K9 structure sweep. Queries: the whole universe plus predecessor/successor/prefix/extension neighbours of every stored key and of every index separator found by the independent decoder; ranges over all ordered AND reversed pairs of the reduced query set. The oracle is the filter of the sorted reference array.',
    jobs=[
        dict(name='separators', spec=H('h_lookup.c', 'asan'), args=['sep']),
        dict(name='separators-16bit', spec=H('h_lookup.c', 'asan'), args=['sep16']),
        dict(name='subsets', spec=H('h_lookup.c', 'asan'), args=['sets']),
        dict(name='k9', spec=H('h_lookup.c', 'asan'), args=['k9']),
    ],
    states_key='cases', transitions_key='transitions', traces_key='cases',
    rule='one case = one table; transitions = lookups drained and compared; signature = (restart interval, #blocks, separator case per block: same / shorter / same length / longer)',
    bounds={'quick': 'pairs of U5(len<=2)=465 x 5 value shapes x 4 configs; all 3-subsets of 31 keys x 2^3 value vectors; K9 subsets of size<=4 x {0,1,600}^n x 4 configs; ~150 point queries and ~900 range queries per table',
            'thorough': 'pairs of U5(len<=3)=12090; all 4-subsets of 31 keys x 2^4 value vectors'},
    nonzero=['cases', 'multi_block_tables'],
    assumptions=['a NULL iterator counts as the empty result'],
    budget={'quick': 300, 'thorough': 2400},
)

_RIT = H('h_riter.c', 'asan', exclude=['mtbl/iter.c', 'mtbl/block.c', 'mtbl/reader.c'], blackbox=dict())
CHECKS['C03'] = dict(
    level=MC, engine='bfs',
    technique='explicit-state breadth-first search over the real reader iterator objects: states are operation histories replayed on fresh iterators, deduplicated by a canonical hash of the private iterator fields plus the reference model state, run to a fixpoint (if that private view does not compile against the tree: no deduplication, depth-bounded); plus an undeduplicated depth-bounded tree and a two-iterator product',
    text='For every table layout (1-4 blocks of 1-3 entries, plus 5-10 entry blocks so that galloping/binary search over restart points is exercised), restart interval {1,2,3,16}, foreign prefix {0,13}, compression {none,lz4}, and every iterator kind (iter, get, get_prefix, get_range with boundary/miss/reversed arguments) the search applies next and seek(k) for every k in the target set (stored keys, just-below neighbours, empty key, past-the-end key, index separators) from EVERY reachable iterator state until no new state appears, checking each step against a lower-bound reference iterator and re-reading the previously returned buffers. Because the state space is finite the verdict holds for histories of any length, which is exactly what the property quantifies over.',
    jobs=[
        dict(name='pair', spec=_RIT, args=['pair']),
        dict(name='bfs', spec=_RIT, args=['bfs']),
        dict(name='tree', spec=_RIT, args=['tree']),
    ],
    states_key='states', transitions_key='transitions', traces_key='executions',
    rule='a state = canonical hash of (block_offset, decoded block content, both block iterators, flags, reference position); signature = (layout, restart, prefix, compression, iterator kind/arguments)',
    bounds={'quick': 'layouts: <=3 blocks x 1..3 entries and 5 big-block layouts (5-10 entries/block, restart 1..4); search depth unbounded (fixpoint); tree: all histories of depth<=3 on <=2 blocks x 1..2 entries (big blocks: depth 2); pair: product of two iterators on <=2 blocks',
            'thorough': 'layouts <=5 blocks x 1..3 entries; 3 key families; tree depth 4 on <=3 blocks; pairs on <=3 blocks'},
    nonzero=['states', 'transitions', 'multi_block_tables', 'searches'],
    assumptions=['seek targets are passed in harness-owned copies', 'the canonical hash covers every field the transition functions read as of the pinned tree; the undeduplicated tree mode does not depend on it'],
    budget={'quick': 400, 'thorough': 2400},
)

_MRG = H('h_merger.c', 'asan', exclude=['mtbl/iter.c', 'mtbl/block.c', 'mtbl/reader.c', 'mtbl/merger.c'], blackbox=dict())
CHECKS['C04'] = dict(
    level=MC, engine='seqx',
    technique='exhaustive enumeration of source families (every subset of a 4-key universe per source, up to 3-4 sources, reader/multi-block/invalidating user sources) drained through the real merger with a fold-tree merge function whose result reveals exactly which source values were combined',
    text='Every family of k<=3 (thorough 4) sources, each any subset of {empty key, a, b, c}, with every combination of {merge function (fold tree, or a shrinking sum whose result is shorter than its operands), none} x {dupsort, none} and six source kinds (reader, multi-block reader, invalidating user source, user source holding every key twice in dupsort order, two mixes), is drained through the real merger. The merge callback returns "(v0+v1)" over unique value tags, so parsing a result yields the exact multiset of values folded - each used once - without prescribing a fold order. A callback failing for one key at its n-th invocation must make exactly the next() that would produce that key fail. User sources free their previous buffers on every call so that any stale use is an AddressSanitizer report. The same content is also observed through mtbl_source_write() into a writer and through the real mtbl_merge binary with a merge DSO (output decoded independently).',
    jobs=[
        dict(name='drain', spec=_MRG, args=['drain']),
        dict(name='failing-callback', spec=_MRG, args=['fail']),
        dict(name='many-sources', spec=_MRG, args=['many']),
        dict(name='source-write', spec=_MRG, args=['srcwrite']),
        dict(name='mtbl_merge-tool', spec=_MRG, args=['tool'], tools=['mtbl_merge'], dsos=['fold_dso']),
    ],
    states_key='states', transitions_key='transitions', traces_key='executions',
    rule='one case = (source family, source kinds, merge on/off, dupsort on/off[, failing key, nth]); signature = (options, k, number of sources holding each key, kinds)',
    bounds={'quick': 'k<=3 sources x 16 subsets each x 6 source-kind assignments x option combinations; failing callback: every key with >=2 holders x every invocation index x 2 failure styles; 5-8 sources: ALL permutations of their first keys in add order (46 200 orders), with and without merge function',
            'thorough': 'k<=4 sources'},
    nonzero=['states', 'drains_with_merging', 'drains_with_empty_key', 'drains_with_duplicate_keys_in_one_source', 'failing_callback_runs', 'source_write_runs', 'tool_runs', 'many_source_drains'],
    assumptions=['order among equal keys without dupsort is unspecified and not checked', 'after a failed merge nothing further is checked (the statement fixes only that call)'],
    budget={'quick': 300, 'thorough': 1800},
)
CHECKS['C05'] = dict(
    level=MC, engine='bfs',
    technique='explicit-state breadth-first search over the real merger iterator (state = replayed history, canonical hash of heap, look-ahead entries, cur_key/cur_val, flags and every source iterator), to a fixpoint (if that private view does not compile against the tree: no deduplication, depth-bounded); undeduplicated tree; exhaustive one-shot lookups',
    text='For every family of k<=2 (thorough 3) sources over {empty key, a, b, c}, every merger iterator kind (iter, get, get_prefix, get_range over boundary arguments) with and without merge function, next and seek(k) for k over the universe and its neighbours are applied from every reachable state until closure; each step is checked against a lower-bound reference over the merged content (values compared as fold trees). This covers seeking to the key just returned, backwards after exhaustion, and onto keys that need merging, from any prior history.',
    jobs=[
        dict(name='lookup', spec=_MRG, args=['lookup']),
        dict(name='tree', spec=_MRG, args=['tree']),
        dict(name='bfs', spec=_MRG, args=['bfs']),
    ],
    states_key='states', transitions_key='transitions', traces_key='executions',
    rule='a state = canonical hash of the merger iterator + source iterators + reference position; signature = (merge on/off, iterator spec, number of sources holding each key, kinds)',
    bounds={'quick': 'k<=2 sources x 16 subsets x {reader, multi-block reader, user} x 15 iterator specs x merge on/off; 10 seek targets; fixpoint; tree depth 3; lookups: all (kind,a,b) over 10 targets',
            'thorough': 'k<=3 sources x {reader, mixed, duplicate-key user source}; tree depth 4 on k<=2'},
    nonzero=['states', 'transitions', 'searches', 'lookups'],
    assumptions=['a NULL iterator counts as the empty result'],
    budget={'quick': 400, 'thorough': 2400},
)

_SRT = H('h_sorter.c', 'asan', tu_flags={'mtbl/sorter.c': ['-Dmkstemp=vf_mkstemp']})
_SRT_NOHOOK = H('h_sorter.c', 'asan', tu_flags={'mtbl/sorter.c': ['-Dmkstemp=vf_mkstemp']}, lib_flags=['-UMTBL_VERIF'])
CHECKS['C06'] = dict(
    level=MC, engine='seqx',
    technique='exhaustive enumeration of input sequences x every memory budget (hence every chunking the budget mechanism can produce) through the real sorter, fold-tree merge oracle; mkstemp seam; cross-check without the hook at the real 10 MiB floor',
    text='Every input sequence of length <=6 (thorough <=9) over keys {empty, a, b} with unique value tags is sorted under every max_memory from 1 byte up to everything-in-memory (the MTBL_VERIF hook lets the public setter go that low), through the iterator and through mtbl_sorter_write (file decoded independently). Output must be the distinct keys ascending with fold trees whose leaves are exactly the values added per key. The mkstemp seam records every spill template (must lie directly in the configured directory) and the spill count after each add (a spill must have happened once buffered key+value bytes reach the limit). After iteration began add/write must be refused and change nothing. The same sweep at length <=4 (thorough <=6) runs over three more key pools: 4-5 byte keys whose leading bytes span 0x00..0xff, long keys in prefix relation, keys around the 0x7f/0x80 boundary (word-wise or signed comparisons in the in-memory sort go wrong there). Pools of 1,2,8 real threads for inputs <=4; one run per tier is repeated WITHOUT the hook at the genuine 10 MiB floor with 3.5 MiB values.',
    jobs=[
        dict(name='sequences', spec=_SRT, args=['seq']),
        dict(name='pooled', spec=_SRT, args=['pool']),
        dict(name='nohook-10MiB', spec=_SRT_NOHOOK, args=['nohook'], shards=1),
    ],
    states_key='cases', transitions_key='transitions', traces_key='cases',
    rule='one case = (key sequence, budget, pool size, iterate|write, merge on/off); signature = (#chunks, length, pool, mode)',
    bounds={'quick': 'sequences of length<=6 over 3 keys (1093) x every budget 1..cost+2 (step 3 for n=6) x {iterate, write}; three more key pools (4-5 byte keys) at length<=4 (pooled <=3); pooled: length<=4 x pools {1,2,8} (budget step 5); 6 runs at the unhooked 10 MiB floor',
            'thorough': 'length<=9 (29524 sequences; every budget for n<=6, step 7 for n=7,8, step 19 for n=9); pooled length<=5'},
    nonzero=['cases', 'multi_chunk_runs'],
    assumptions=['spilling earlier than the limit is accepted', 'spill timing is only observed without a pool (with a pool the spill is asynchronous)'],
    budget={'quick': 300, 'thorough': 2400},
)

def _sched(flavor):
    return H('h_sched.c', flavor, exclude=['mtbl/threadpool.c'], extra=[('vsched.c', 'nosan')], hflags=['-include', 'vsched.h'])

def _sjobs(flavor, cfgs, tiers=None, prefix=''):
    out = []
    for c in cfgs:
        d = dict(name=prefix + c.replace(' ', '_'), spec=_sched(flavor), args=c.split())
        if tiers:
            d['tiers'] = tiers
        out.append(d)
    return out

_C13_QUICK = [
    'pool-ordered 1 0 2', 'pool-ordered 1 1 3', 'pool-ordered 1 2 3', 'pool-ordered 2 3 2',
    'pool-unordered 1 1 3', 'pool-unordered 1 3 2', 'pool-unordered 2 3 2',
    'pool2-ordered 2 1 2', 'pool2-unordered 1 2 2', 'pool2t-unordered 2 1 1', 'pool2t-ordered 2 1 1', 'pool2t-unordered 1 1 1',
    'writer 1 0 2', 'writer 1 2 3', 'writer 2 3 2', 'writer 2 2 2 comp=3', 'writer2 2 2 1', 'writer2t 2 1 1',
    'sorter 1 2 3', 'sorter 2 3 2', 'sorter 2 0 2', 'sorter 2 3 2 mem=40', 'sorter 1 4 2 mem=40',   # mem=40: two entries per chunk, a rest is still buffered when iteration starts
    # two callers, three jobs and one job, on a pool of two: the smallest program in which BOTH callers wait for a worker at the same time without
    # any preemption (the first caller fills the pool alone). Seed R6-C13: a wake-up that is only sent when the idle list was empty is lost on
    # the second of two hand-backs. Bound 0 = every non-preemptive schedule (bound 1 of the symmetric two-jobs-each program is in the thorough tier: 800 000 executions).
    'pool2t-unordered 2 3 0 j2=1', 'pool2t-ordered 2 3 0 j2=1',
    # the same programs with a scheduling point after every unlock as well (a statement moved behind an unlock is only visible there)
    'pool-unordered 1 2 2 unlockpts', 'pool-unordered 2 3 1 unlockpts', 'pool-ordered 2 3 1 unlockpts', 'writer 2 3 1 unlockpts', 'sorter 1 2 2 unlockpts',
]
_C13_THOROUGH = [
    'pool-ordered 1 3 3', 'pool-ordered 2 3 3', 'pool-unordered 2 3 3', 'pool-ordered 2 4 2', 'pool-unordered 2 4 2', 'pool-ordered 3 3 2', 'pool-unordered 3 3 2',
    'pool-unordered 1 2 2 spur=1', 'pool-unordered 2 2 2 spur=1', 'pool-ordered 2 2 2 spur=1',
    'pool-ordered 1 2 2 unlockpts', 'pool-unordered 2 2 1 unlockpts',
    'writer 2 3 3', 'writer 2 4 2', 'writer 3 3 2', 'writer 2 2 2 spur=1', 'sorter 2 3 3', 'sorter 2 2 2 spur=1',
    'pool2-ordered 2 2 1', 'pool2-ordered 1 2 2', 'pool2-unordered 2 2 1', 'pool2t-unordered 2 1 2', 'pool2t-ordered 1 2 1', 'writer2t 2 1 2', 'writer2 2 2 2',
    'pool2t-unordered 2 2 1', 'writer2t 2 2 1',
]
CHECKS['C13'] = dict(
    level=MC, engine='vsched',
    technique='stateless model checking of the real threadpool.c under a deterministic scheduler that owns every pthread operation: depth-first enumeration of all schedules with at most B preemptions (iterative context bounding) and at most S spurious wake-ups, with happens-before state caching; deadlock detection built into the scheduler',
    text='The pool core (1-2 result handlers, ordered and unordered, one and two caller threads), real pooled writers (one, two sharing a pool, two caller threads) and real pooled sorters run as serialised OS threads whose every mutex/condition/create/join operation is a scheduling point owned by the explorer. Every schedule within the preemption bound is executed; per execution: every job result delivered exactly once (in order when ordered), never more live workers than the pool maximum, writer output byte-identical to the pool-less writer, sorter output equal to the reference, all threads finished, no misuse of a primitive; "no enabled thread" is reported as deadlock with the schedule. Switches at blocking points are free and all explored; equivalent states (same happens-before trace) are expanded once.',
    jobs=_sjobs('asan', _C13_QUICK) + _sjobs('asan', _C13_THOROUGH, tiers=['thorough'], prefix='T:'),
    states_key='states', transitions_key='transitions', traces_key='executions',
    rule='states = distinct happens-before states expanded at choice points; transitions = scheduling/choice points executed; signature = (delivery order observed, #preemptions, #spurious wake-ups)',
    bounds={'quick': 'P in {1,2}, J in {0..3}; preemption bound 3 for P=1, 2 for P=2/J=3 and two clients of one caller, 1 for two caller threads (plus two callers with 3 and 1 jobs on a pool of two at bound 0, where both wait for a worker at once); sorters with one and with two entries per chunk; no spurious wake-ups; five configurations also with scheduling points after unlock (per-job arguments: scenario P J bound)',
            'thorough': 'adds J=4, P=3, bound 3 on P=2/J=3, spurious wake-ups <=1, scheduling points at unlock on small configurations'},
    nonzero=['states', 'executions', 'executions_with_preemption', 'cond_waits', 'blocking_joins'],
    assumptions=['sequentially consistent interleavings at synchronisation operations (sufficient for data-race-free code; races are C14)', 'the scheduler\'s model of mutex/condition semantics (cross-checked by the free-running pass of C14)', 'happens-before caching is sound for data-race-free programs'],
    budget={'quick': 420, 'thorough': 3000},
)
_C14_QUICK = ['reader-shared 2 0 1', 'reader-shared 3 1 1', 'reader-shared 3 2 1', 'reader-shared 3 3 1', 'reader-shared 2 4 1', 'reader-shared 2 5 1',
              'writer 2 3 1 comp=5', 'writer 2 3 1 comp=2', 'writer2t 2 1 0 comp=5',
              'pool-ordered 2 3 1', 'pool-unordered 2 3 1', 'pool2t-unordered 2 1 1', 'pool2t-ordered 2 1 1',
              'writer 2 3 1', 'writer 1 3 1', 'writer2 2 2 1', 'writer2t 2 1 1', 'sorter 2 3 1', 'sorter 2 3 1 mem=40', 'sorter 2 4 1 mem=40', 'sorter-destroy 2 2 1']
_C14_THOROUGH = ['pool-ordered 2 3 2', 'pool-unordered 2 3 2', 'writer 2 3 2', 'writer 2 4 1', 'sorter 2 3 2', 'sorter-destroy 2 3 2', 'reader-shared 4 1 1', 'pool2t-unordered 2 1 2', 'writer2t 2 1 2', 'writer2 2 2 2']
_C14_FREE = ['reader-shared 4 3 0 free=20', 'writer2t 2 3 0 comp=5 free=20', 'writer 2 4 0 free=40', 'writer2t 2 3 0 free=40', 'sorter 2 4 0 free=40', 'pool2t-unordered 2 3 0 free=40', 'reader-shared 4 1 0 free=20']
CHECKS['C14'] = dict(
    level=MC, engine='vsched',
    technique='the C13 schedule explorer with the code under ThreadSanitizer: the scheduler is uninstrumented (its hand-offs are invisible to the race detector) and announces exactly the program\'s own release/acquire edges, so each explored schedule yields TSan\'s happens-before verdict for that synchronisation order; plus a free-running cross-check',
    text='Pooled writers/sorters (also two of them sharing a pool from two caller threads) and 2-4 threads iterating and querying one open reader (all four iterator kinds, verify_checksums on, all six compression types) are executed under every schedule with <=1 (thorough <=2) preemptions with the library compiled by clang -fsanitize=thread. A race is a pair of conflicting accesses unordered by the program\'s own synchronisation; whether such a pair exists depends on the synchronisation order, which is what the explorer enumerates. The shared-reader bodies contain no synchronisation, so their verdict is schedule independent.',
    jobs=_sjobs('tsan', _C14_QUICK) + _sjobs('tsan', _C14_THOROUGH, tiers=['thorough'], prefix='T:') + _sjobs('tsan', _C14_FREE, prefix='free:'),
    states_key='states', transitions_key='transitions', traces_key='executions',
    rule='as C13; data races are counted through __tsan_on_report',
    bounds={'quick': 'preemption bound 1 (0 for the largest two-caller scenario); 5 free-running bodies x 20-40 repetitions x 16 processes',
            'thorough': 'preemption bound 2'},
    nonzero=['states', 'executions', 'free_running_executions'],
    assumptions=['TSan sees accesses that execute in an explored schedule; its shadow history is finite', 'weak-memory reorderings are outside the model: the happens-before analysis is what covers unsynchronised accesses'],
    budget={'quick': 420, 'thorough': 3000},
)

_WF = H('h_wfault.c', 'asan', tu_flags={'mtbl/writer.c': ['-Dwrite=vf_write', '-Dwritev=vf_writev', '-Dpwrite=vf_pwrite']})
CHECKS['C20'] = dict(
    level=FE, engine='envshim',
    technique='exhaustive enumeration of fault scripts for write(2): every outcome (full, EINTR, EINTR x3, short write of every length, EIO, ENOSPC, return 0) at every write call, all scripts with at most D deviations, on the real writer through a compile-time seam',
    text='writer.c is compiled with write (and writev, pwrite, should the writer use them) renamed to harness functions that answer every call from a script and record the byte stream. All scripts with at most D deviations (D=3 quick, 4 thorough) from "every write completes" are run on seven files (empty table, 1-3 data blocks, foreign prefix, none/lz4). Without a hard error the final bytes must equal the unfragmented output and every call must offer exactly the not-yet-accepted continuation of the file (no byte repeated or skipped). With a hard error the writer must stop on its assertion; mtbl_writer_destroy returning normally is a violation. The same scripts with a pool (the result-handler thread does the writing) run in forked children.',
    jobs=[
        dict(name='faults', spec=_WF, args=lambda tier: ['4' if tier == 'thorough' else '3']),
        dict(name='faults-pooled', spec=_WF, args=lambda tier: ['2' if tier == 'thorough' else '1', 'pool']),
    ],
    states_key='states', transitions_key='transitions', traces_key='executions', evals_key='executions',
    rule='one execution = one fault script on one file; signature = (outcome kind, call index, deviations before it)',
    bounds={'quick': 'deviations <= 3 (pooled: <= 1); short lengths: all 1..n-1 for n<=64, else {1,2,n/2,n-2,n-1}',
            'thorough': 'deviations <= 4 (pooled: <= 2)'},
    nonzero=['executions', 'scripts_with_hard_error', 'short_write_deviations', 'eintr_deviations'],
    assumptions=['writes are appends to one descriptor (the writer never seeks)', 'which assertion stops the process is not prescribed'],
    budget={'quick': 300, 'thorough': 2400},
)

_CK = ['-Dmtbl_fixed_decode32=ck_fixed_decode32', '-Dmtbl_fixed_decode64=ck_fixed_decode64', '-Dmtbl_varint_decode64=ck_varint_decode64', '-Dmtbl_varint_decode32=ck_varint_decode32', '-Dmtbl_crc32c=ck_crc32c']
_RO = H('h_ropen.c', 'asan', tu_flags={'mtbl/reader.c': ['-Dmmap=vf_mmap', '-Dmunmap=vf_munmap'] + _CK, 'mtbl/block.c': _CK, 'mtbl/metadata.c': _CK})
CHECKS['C19'] = dict(
    level=FE, engine='envshim',
    technique='exhaustive enumeration of structured damage (every truncation, every byte value in every trailer/index-header position, every index offset, every short index-length varint plus boundary values) applied to seed tables, opened through the real reader whose mapping ends at a guard page and whose decode primitives are bounds-checking wrappers',
    text='Six seed tables (empty, 1 and 3 blocks, lz4, foreign prefix, two format-v1 files from the independent encoder) are damaged in every way of the listed families and opened with mtbl_reader_init and mtbl_reader_init_fd, verify_checksums off and on. The result may be NULL, a reader, or a captured assertion. Any read outside the file is caught three ways: the decode/CRC wrappers compiled into reader.c, block.c and metadata.c check every address range against the file, the file is mapped so that it ends exactly at a PROT_NONE region (SIGSEGV/SIGBUS are reported with the case), and AddressSanitizer watches the heap.',
    jobs=[dict(name='open', spec=_RO, args=[])],
    states_key='states', transitions_key='transitions', traces_key='cases',
    rule='one case = (damage family, seed, parameters, verify_checksums, entry point); signature = (family, seed)',
    bounds={'quick': 'all families on 6 seeds x {verify off,on} x {init, init_fd}; see harness/h_ropen.c for the value sets (truncations, single-byte replacements, index offset values, index length prefixes, restart counts, two-field family: 0..40 bytes of space before the trailer x 50 boundary length prefixes)',
            'thorough': 'same (the families are exhaustive as defined)'},
    nonzero=['cases', 'returned_null', 'returned_reader', 'mmap_env_cases'],
    assumptions=['unstructured content is covered only by a fixed pseudo-random family (3 x 3000 files quick, 3 x 300000 thorough; generator with fixed seeds); the structured families target every field the open path reads'],
    budget={'quick': 300, 'thorough': 1200},
)

_CKS = H('h_cksum.c', 'asan', tu_flags={'mtbl/reader.c': ['-Dmmap=vf_mmap', '-Dmunmap=vf_munmap']})
CHECKS['C12'] = dict(
    level=FE, engine='envshim',
    technique='exhaustive enumeration of bit-flip patterns (all single, double and triple flips; every burst with first and last flipped bit <=12 apart; pattern families for spans 13-32) in every block region of seed files, checked against mtbl_verify\'s own verify_file() and a verify_checksums reader',
    text='Part 1: every file of the K9 structure sweep (depth<=3, six algorithms, prefix 0/13) must be reported OK by src/mtbl_verify.c (compiled into the harness and entered through its main(), output captured) and drain completely through a verify_checksums reader. Part 2: on seven seed files (writer-made: one tiny block, three ~600-byte blocks with lz4 / uncompressed with prefix; independently encoded: three tiny blocks in v2, v1 and zlib, and eight one-entry blocks whose stored lengths cover every residue modulo 8; plus eight writer-made one-entry tables with value lengths 0..7, so that blocks of every length modulo 8 carry the checksum computed by the library itself). Every undamaged seed must itself verify. The real mtbl_verify binary (exit status and stdout) is run on every undamaged seed and on every 16th single-bit flip. every flip pattern of the families above is applied inside each block\'s checksum+stored-bytes region, data blocks and index block alike; mtbl_verify must never print OK for the damaged file or exit 0 - also when the damaged file is the second of two files named on one command line (all index-block damage and every 16th other case) -, and a verify_checksums reader iterating from the start or doing get() on the damaged block\'s keys must stop on its assertion before handing out any entry of that block.',
    jobs=[dict(name='intact', spec=_CKS, args=['intact'])] + [dict(name='damage-seed%d' % k, spec=_CKS, args=['damage', str(k)], tools=['mtbl_verify']) for k in range(7)] + [dict(name='damage-writer-tiny', spec=_CKS, args=['damage', '10', '17'], tools=['mtbl_verify'])],
    states_key='states', transitions_key='transitions', traces_key='cases',
    rule='one case = (seed, block region, flip pattern); signature = (seed, batch)',
    bounds={'quick': 'triples: all for regions <=260 bits, else within a 40-bit window; pairs: all for regions <=1024 bits, else all within 64 bits plus a grid; bursts: every position (every 40th for regions >1024 bits) x all 2^(span-2) patterns for span<=12, 3+ pattern families for span 13..32',
            'thorough': 'triples: all for regions <=700 bits; pairs within 256 bits plus a finer grid; bursts at every position'},
    nonzero=['cases', 'intact_files_verified', 'intact_seeds_verified', 'verify_rejected', 'reader_stopped', 'tool_runs'],
    assumptions=['damage to the length prefix is outside the statement', 'which assertion stops the process is not prescribed'],
    budget={'quick': 600, 'thorough': 3000},
)

_FS = H('h_fileset.c', 'asan', exclude=['mtbl/fileset.c', 'libmy/my_fileset.c', 'mtbl/merger.c'], extra=[('merger_peek.c', None)],
        blackbox=dict(exclude=[], extra=[], tu_flags={'mtbl/fileset.c': ['-Dclock_gettime=vf_clock_gettime'], 'libmy/my_fileset.c': ['-Dclock_gettime=vf_clock_gettime']}))

CHECKS['C07'] = dict(
    level=MC, engine='bfs',
    technique='explicit-state breadth-first search over histories of the real fileset (two handles sharing one fileset, real setfile and table files on tmpfs, harness-owned monotonic clock): states deduplicated by a canonical hash of the private fileset fields plus the reference state (if that private view does not compile against the tree: no deduplication, shallower depth); oracle = interval of setfile versions the view may legitimately reflect; AddressSanitizer over every history',
    text='Alphabet: rewrite the setfile to one of eight versions (one with a missing and a non-table file, one with an absolute path, one that still lists a previously loaded file which has meanwhile been deleted from disk, one that names the same file twice - relative and absolute; how often such a file contributes is not judged -, one written after the non-table file of the other version has been replaced by a real table), advance the clock by 1 s or interval+1 s (each also in a variant whose nanosecond part restarts below every earlier reading), and for handles A and B=dup(A, filename/reader filter): reload, reload_now, open an iterator, step it, seek it (thorough), close it, observe (open+drain+close), plus destroy(A) and destroy(B) (thorough). Configurations: reload intervals {2, 0, NEVER} per handle, merge function on/off, cold and warm start. After every open the content (decoded to the set of files it merges) must equal the filtered merge of SOME setfile version between the one current at the latest mandatory reload point (initial load, reload_now, deferred reload_now, interval expired since the last moment a reload could have happened) and the one current at the last moment a reload could have happened at all; never older, and fixed while any iterator is open. Kept iterators must return their original snapshot step by step whatever happens in between.',
    jobs=[dict(name='fileset-bfs', spec=_FS, args=lambda tier: ['5', '7'] if tier == 'thorough' else ['5'])],
    states_key='states', transitions_key='transitions', traces_key='executions',
    rule='a state = canonical hash of (shared fileset counters and stamps, my_fileset entries, per-handle stamp equality and merger sources, open iterators, reference interval, capped clock ages); signature = (configuration, first operation)',
    bounds={'quick': 'histories of depth<=5 (plus 2 warm-up operations in warm configurations), 4 configurations, ~21 operations enabled per state (8 setfile versions, 3 clock steps, 5 operations per handle, destroy)',
            'thorough': 'full alphabet (also 3 s step with nanosecond reset, seek on kept iterators, destroy(B)): depth<=5 for all 8 configurations, then depth 6 and 7 as far as the budget and the cap of 400000 states per search allow (iterative deepening; maxima.max_depth_completed_by_this_shard, counters.bfs_state_cap_hit and searches_stopped_by_budget in the evidence say how far it got)'},
    nonzero=['states', 'transitions', 'searches'],
    assumptions=['no two readings of the monotonic clock are equal (CLOCK_MONOTONIC has nanosecond resolution and the library reads it around file I/O); the nanosecond part may step backwards', 'distinct setfile versions have distinct (inode, mtime seconds)', 'reloading earlier than required is accepted'],
    budget={'quick': 300, 'thorough': 3000},
)

_RES = H('h_res.c', 'asan', tu_flags={'mtbl/reader.c': ['-Dmmap=vf_mmap', '-Dmunmap=vf_munmap']})

CHECKS['C18'] = dict(
    level=MC, engine='bfs',
    technique='exhaustive enumeration of API scenario scripts with every abandon point and both destruction orders; each history is executed three times and process-wide ledgers (sanitizer allocator bytes in use, open descriptors, reader mappings through an mmap seam, temp-dir listing) must not grow between repetitions; pooled-sorter-destroyed-in-flight under the schedule explorer with LeakSanitizer',
    text='Seven scenario families (reader opened and destroyed on tables at every file-size residue modulo the page size, mappings accounted in pages; writer with refused adds; reader on table / non-table / short / empty file with all iterator kinds advanced 0, 1, all; merger with a merge callback failing per key and mtbl_source_write; sorter with 1-3 chunks, without pool / with a 2-thread pool / with a zero-thread pool object, merge callback failing inside a chunk or in the final merge, iterator or mtbl_sorter_write path; fileset with dup, open iterators, deferred reload_now, partition; pooled writers sharing a pool) are cut at EVERY point of their script, all live objects are destroyed (two orders), and the whole history is repeated: a repetition-to-repetition growth of heap bytes, descriptors, mappings, threads or temp files is a leak, independent of reachability. Scenarios that the library stops by assertion are not histories that end with every object destroyed and are only counted. Destroying a pooled sorter while chunk jobs are in flight is explored under every schedule with <=2 preemptions.',
    jobs=[dict(name='scenarios', spec=_RES, args=[])] + [dict(j, env={'ASAN_OPTIONS': 'detect_leaks=1:abort_on_error=0:exitcode=77:handle_segv=0:handle_sigbus=0'}) for j in _sjobs('asan', ['sorter-destroy 2 2 2', 'sorter-destroy 1 3 2', 'sorter-destroy 2 3 1'], prefix='inflight:')],
    states_key='states', transitions_key='transitions', traces_key='cases', evals_key='cases',
    rule='one case = (scenario family, variant, abandon point, destruction order); signature = (family, variant, order)',
    bounds={'quick': '6 families, ~70 variants, every abandon point (up to 30 per script), 2 destruction orders; in-flight destroy: P<=2, J<=3, preemption bound 2',
            'thorough': 'same scripts (they are exhaustive as defined)'},
    nonzero=['cases', 'scenarios_checked_leak_free', 'leak_checks'],
    assumptions=['heap accounting is the sanitizer allocator\'s bytes-in-use counter; steady state is reached after the first repetition (one-time libc/library caches)'],
    budget={'quick': 300, 'thorough': 1200},
)

CHECKS['C11'] = dict(
    level=MC, engine='seqx',
    technique='bounded-exhaustive enumeration of well-formed files produced by an independent encoder (every block partition x restart set x sharing amount x index separator choice x format version x compression x foreign prefix over small key sets), read back through the real reader: iteration, get / get_prefix / get_range, seek from exhausted and fresh iterators; >4 GiB block images for 64-bit restart arrays',
    text='The writer emits one encoding per content; the format allows many. For every strictly increasing key sequence of length <=4 (thorough 5) from K9 the independent encoder produces every partition into blocks, every legal restart set, sharing amounts {0, lcp-1, lcp} per non-restart entry (also in the index block) and, over a second key pool with common prefixes of 2-5 bytes, {0, 1, lcp-1, lcp}, four separator choices per block between "last key" and "just below the next first key", v1 and v2, six compression types, foreign prefix 0/13. The reader (verify_checksums off and on) must return exactly the encoded entries for full iteration, for get/get_prefix/get_range over the 31-string universe, and for seek+next from an exhausted iterator. Blocks larger than 4 GiB with 64-bit restart offsets are built in a lazily zeroed mapping and handed to block_init/block_iter directly. Thorough tier: files whose single zlib block is stored as 1 GiB of stored-deflate data (the reader\'s inflate buffer then reaches 4 GiB).',
    jobs=[dict(name='encoded-files', spec=H('h_encode.c', 'asan'), args=['enc']),
          dict(name='restart64', spec=H('h_encode.c', 'fast'), args=['restart64'], shards=1),
          dict(name='builder64', spec=H('h_encode.c', 'fast'), args=['bb64'], shards=1, tiers=['thorough']),
          dict(name='zlib-1GiB-block', spec=H('h_encode.c', 'fast'), args=['zbig'], shards=1, tiers=['thorough'])],
    states_key='states', transitions_key='transitions', traces_key='cases',
    rule='one case = one encoded file; transitions = lookups/seeks compared; signature = (version, compression, #blocks, #restarts, prefix)',
    bounds={'quick': 'key subsets of K9 up to size 4; full product partition x restarts x sharing at v2/none; 4^blocks separator choices per partition; version x 6 compressions x prefix x 2 restart layouts per partition; 3 restart layouts of a 4.0 GiB block',
            'thorough': 'subsets up to size 5; block_builder round trip of a 6 GiB block (four 1.5 GiB values, restart interval 1 and 2); files whose single zlib block is stored as >= 1 GiB (value of 2^30 bytes, v2; 2^30-300000, v1; 100 MiB)'},
    nonzero=['cases', 'transitions', 'restart64_blocks', 'partial_sharing_files'],
    assumptions=['the encoder is cross-checked by its own decoder on every file', 'values are 1-3 bytes: value handling is covered by C01'],
    budget={'quick': 300, 'thorough': 2400},
)
