"""Check definitions: which harness jobs decide which property, per tier."""

MC = 'model_checking'
FE = 'fault_enumeration'


def H(harness, flavor='asan', **kw):
    d = dict(harness=harness, flavor=flavor)
    d.update(kw)
    return d


CHECKS = {}
NOT_APPLICABLE = {}
HOOK_COMMITS = ['d1d2514']
NOTES = ('All checks are exhaustive enumerations executed on the C sources of the current /repo working tree '
         '(compiled by the driver with -DMTBL_VERIF); see DESIGN.md. Replay: ./verif replay <file>.')
ENGINES = [
    dict(name='seqx', path='harness/', serves_properties=['C16'], kind_free_text='bounded-exhaustive sequential explorer: odometer enumeration of inputs/configurations, lock-step C reference models, independent codec'),
]

CHECKS['C16'] = dict(
    level=MC, engine='seqx',
    technique='bounded-exhaustive enumeration of values and byte strings on the real codec functions, compared with an independent base-128/little-endian reference',
    text='Every 32-bit value (thorough) and structured 64-bit families are pushed through the real encode/decode/length functions and compared byte-for-byte with an independent reference; decoders are also run on every short byte string. Exhaustive within the stated value sets, so an off-by-one in any width branch is certain to be hit.',
    jobs=[
        dict(name='varint32', spec=H('h_varint.c', 'asan'), args=['v32'], tiers=['quick']),
        dict(name='varint32-all', spec=H('h_varint.c', 'fast'), args=['v32'], tiers=['thorough']),
        dict(name='varint64', spec=H('h_varint.c', 'asan'), args=['v64']),
        dict(name='fixed', spec=H('h_varint.c', 'asan'), args=['fixed']),
        dict(name='decoders', spec=H('h_varint.c', 'asan'), args=['dec']),
    ],
    states_key='cases', transitions_key='transitions', traces_key='cases',
    rule='every value / byte string of the stated families is one case; a signature is (codec, encoded length, alignment pair or terminator position)',
    bounds={'quick': '32-bit: all v < 2^22, +-4096 around 2^7k, top 8192; 64-bit: <=2 bits set/clear, 2^7k+-1, 4^10 group family; decoders: all strings len<=3, len<=9 over {00,01,7f,80,ff}; fixed: all alignments 0..7 x 0..7',
            'thorough': '32-bit: ALL 2^32 values; rest as quick with decoder strings up to length 11'},
    nonzero=['cases', 'transitions'],
    assumptions=['reference encoder is the textbook base-128 loop written in the harness', 'decoders are only called on buffers that contain a terminator or are at least 5/10 bytes long (their documented contract)'],
    budget={'quick': 200, 'thorough': 1500},
)

CHECKS['C17'] = dict(
    level=MC, engine='seqx',
    technique='bounded-exhaustive enumeration of buffers (length x alignment x content, every byte value at every position) on all three CRC entry points against a bit-at-a-time reference',
    text='Both implementations (SSE4.2 instructions and slicing-by-8 tables) and the public wrapper are called directly on every length 0..1100 at every alignment, on every byte value at every position of short buffers (which indexes every entry of all eight slicing tables) and on all 1-2 byte (thorough: 3 byte) buffers, and compared with a bit-wise Castagnoli reference and the standard check value.',
    jobs=[dict(name='crc', spec=H('h_crc.c', 'asan'), args=[])],
    states_key='cases', transitions_key='transitions', traces_key='cases',
    rule='one case = (content family, length, alignment, patched position, value); signature = (min(len,24+len%8), alignment, family)',
    bounds={'quick': 'len 0..1100 x align 0..7 x 6 families; every value at every position of len 1..16 (rest 00 / ff) x align 0..7; all 1- and 2-byte buffers',
            'thorough': 'len 0..4200, 2^k+-1 up to 2^22; positions in len 1..40; all 3-byte buffers'},
    nonzero=['cases', 'sse42_available'],
    assumptions=['host CPU offers SSE4.2 (otherwise the hardware path cannot run; the check then fails its vacuity guard rather than pass silently)'],
    budget={'quick': 200, 'thorough': 1500},
)

CHECKS['C15'] = dict(
    level=MC, engine='seqx',
    technique='bounded-exhaustive enumeration of (algorithm, level, buffer length, content family) through the real mtbl_compress/_level/_decompress; assertion failures captured in-process',
    text='Every length 0..64 (thorough 0..300) x 7 content families x every algorithm value x every level in a boundary set (INT_MIN..INT_MAX, each library minimum-1..maximum+1) goes through the real compress/decompress pair; the oracle is exactly the statement: failure, or a byte-exact round trip, never an abort. Short buffers and extreme levels are where output-bound and clamping errors live, and they are covered completely.',
    jobs=[
        dict(name='small', spec=H('h_compress.c', 'asan'), args=['small']),
        dict(name='big', spec=H('h_compress.c', 'asan'), args=['big']),
        dict(name='names', spec=H('h_compress.c', 'asan'), args=['names'], shards=4),
    ],
    states_key='cases', transitions_key='transitions', traces_key='cases',
    rule='one case = (algorithm, with/without level, level, content family, length); signature = (algorithm, clamped level, min(len,16)+size class, family)',
    bounds={'quick': 'len 0..64 x 7 families x 8 algorithm values x levels {INT_MIN, INT_MIN+1, -131073..-131071, -10001..-9999, -100, lib min-1..max+1, INT_MAX-1, INT_MAX}; len 2^k+{-1,0,1}, k=7..20 x 3 levels; names: enum -2..9, all strings len<=4 over 33 letters, one-edit neighbours, all case variants',
            'thorough': 'len 0..300; k up to 24'},
    nonzero=['cases', 'compress_ok', 'compress_refused'],
    assumptions=['the four compression libraries themselves are trusted'],
    budget={'quick': 240, 'thorough': 1800},
)
