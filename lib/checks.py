"""Check definitions: which harness jobs decide which property, per tier."""

MC = 'model_checking'
FE = 'fault_enumeration'


def H(harness, flavor='asan', **kw):
    d = dict(harness=harness, flavor=flavor)
    d.update(kw)
    return d


CHECKS = {}
NOT_APPLICABLE = {}
HOOK_COMMITS = ['d1d2514']
NOTES = ('All checks are exhaustive enumerations executed on the C sources of the current /repo working tree '
         '(compiled by the driver with -DMTBL_VERIF); see DESIGN.md. Replay: ./verif replay <file>.')
ENGINES = [
    dict(name='seqx', path='harness/', serves_properties=['C16'], kind_free_text='bounded-exhaustive sequential explorer: odometer enumeration of inputs/configurations, lock-step C reference models, independent codec'),
]

CHECKS['C16'] = dict(
    level=MC, engine='seqx',
    technique='bounded-exhaustive enumeration of values and byte strings on the real codec functions, compared with an independent base-128/little-endian reference',
    text='Every 32-bit value (thorough) and structured 64-bit families are pushed through the real encode/decode/length functions and compared byte-for-byte with an independent reference; decoders are also run on every short byte string. Exhaustive within the stated value sets, so an off-by-one in any width branch is certain to be hit.',
    jobs=[
        dict(name='varint32', spec=H('h_varint.c', 'asan'), args=['v32'], tiers=['quick']),
        dict(name='varint32-all', spec=H('h_varint.c', 'fast'), args=['v32'], tiers=['thorough']),
        dict(name='varint64', spec=H('h_varint.c', 'asan'), args=['v64']),
        dict(name='fixed', spec=H('h_varint.c', 'asan'), args=['fixed']),
        dict(name='decoders', spec=H('h_varint.c', 'asan'), args=['dec']),
    ],
    states_key='cases', transitions_key='transitions', traces_key='cases',
    rule='every value / byte string of the stated families is one case; a signature is (codec, encoded length, alignment pair or terminator position)',
    bounds={'quick': '32-bit: all v < 2^22, +-4096 around 2^7k, top 8192; 64-bit: <=2 bits set/clear, 2^7k+-1, 4^10 group family; decoders: all strings len<=3, len<=9 over {00,01,7f,80,ff}; fixed: all alignments 0..7 x 0..7',
            'thorough': '32-bit: ALL 2^32 values; rest as quick with decoder strings up to length 11'},
    nonzero=['cases', 'transitions'],
    assumptions=['reference encoder is the textbook base-128 loop written in the harness', 'decoders are only called on buffers that contain a terminator or are at least 5/10 bytes long (their documented contract)'],
    budget={'quick': 200, 'thorough': 1500},
)
