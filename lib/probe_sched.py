import sys, time, os
sys.path.insert(0, os.path.dirname(os.path.abspath(__file__)))
import driver, checks
flavor = sys.argv[1]; budget = int(sys.argv[2])
for cfg in sys.argv[3:]:
    job = dict(name=cfg, spec=checks._sched(flavor), args=cfg.split())
    t = time.time()
    r = driver.run_job('C13', job, 'quick', time.time() + budget)
    print('%-34s %6.1fs exec=%-9d states=%-9d pruned=%-8d %s %s' % (cfg, time.time() - t, r.stats.get('executions', 0), r.stats.get('states', 0), r.stats.get('subtrees_pruned_by_hb_cache', 0), 'INCOMPLETE' if r.incomplete else '', ('VIOL ' + str(r.violations[0])[:200]) if r.violations else ''), flush=True)
