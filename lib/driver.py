import sys, os, json, time, hashlib, subprocess, shutil, argparse, glob, re, tempfile
from concurrent.futures import ThreadPoolExecutor

VERIF = os.path.dirname(os.path.dirname(os.path.abspath(__file__)))
REPO = os.environ.get('VERIF_REPO', '/repo')
BUILD = os.path.join(VERIF, 'build')
HARNESS = os.path.join(VERIF, 'harness')
NCPU = os.cpu_count() or 4

LIB_SRCS = ['mtbl/block.c', 'mtbl/block_builder.c', 'mtbl/compression.c', 'mtbl/crc32c_wrap.c',
            'mtbl/fileset.c', 'mtbl/fixed.c', 'mtbl/iter.c', 'mtbl/merger.c', 'mtbl/metadata.c',
            'mtbl/reader.c', 'mtbl/sorter.c', 'mtbl/source.c', 'mtbl/threadpool.c', 'mtbl/varint.c',
            'mtbl/writer.c', 'libmy/crc32c.c', 'libmy/crc32c-sse42.c', 'libmy/crc32c-slicing.c',
            'libmy/heap.c', 'libmy/my_fileset.c']
LIBS = ['-lz', '-lsnappy', '-llz4', '-lzstd', '-lpthread', '-ldl']

FLAVORS = {
    'asan': dict(cc='gcc', cflags=['-O1', '-g', '-fsanitize=address', '-fno-omit-frame-pointer', '-fno-common'],
                 ldflags=['-fsanitize=address']),
    'fast': dict(cc='gcc', cflags=['-O2', '-g', '-fno-common'], ldflags=[]),
    'tsan': dict(cc='clang', cflags=['-O1', '-g', '-fsanitize=thread', '-fno-omit-frame-pointer'],
                 ldflags=['-fsanitize=thread']),
    'asanclang': dict(cc='clang', cflags=['-O1', '-g', '-fsanitize=address', '-fno-omit-frame-pointer'],
                 ldflags=['-fsanitize=address']),
}
COMMON_CFLAGS = ['-DMTBL_VERIF', '-D_GNU_SOURCE', '-w']
# library translation units only: abort()/exit() are routed to the harness, which treats them like a failed assertion
LIB_STOP_FLAGS = ['-Dabort=vh_lib_abort', '-Dexit=vh_lib_exit']


def sha(*parts):
    h = hashlib.sha256()
    for p in parts:
        if isinstance(p, str):
            p = p.encode()
        h.update(p)
        h.update(b'\0')
    return h.hexdigest()[:24]


def config_h():
    p = os.path.join(REPO, 'config.h')
    if os.path.exists(p):
        return p
    os.makedirs(BUILD, exist_ok=True)
    q = os.path.join(BUILD, 'config.h')
    with open(q, 'w') as f:
        f.write('#define HAVE_CLOCK_GETTIME 1\n#define HAVE_ENDIAN_H 1\n#define HAVE_MADVISE 1\n'
                '#define HAVE_POSIX_MADVISE 1\n#define HAVE_LIBZ 1\n#define HAVE_LIBSNAPPY 1\n'
                '#ifndef _GNU_SOURCE\n#define _GNU_SOURCE 1\n#endif\n#define PACKAGE_VERSION "verif"\n')
    return q


_hdr_digest = None


def headers_digest():
    global _hdr_digest
    if _hdr_digest is None:
        h = hashlib.sha256()
        files = sorted(glob.glob(os.path.join(REPO, 'mtbl', '*.h')) + glob.glob(os.path.join(REPO, 'libmy', '*.h'))
                       + glob.glob(os.path.join(HARNESS, '*.h')) + [config_h()])
        for f in files:
            h.update(f.encode())
            with open(f, 'rb') as fh:
                h.update(fh.read())
        _hdr_digest = h.hexdigest()
    return _hdr_digest


def included_c_digest(src):
    """harnesses may #include "x.c" from the repo; hash those too."""
    out = []
    try:
        txt = open(src, encoding='latin1').read()
    except OSError:
        return ''
    for m in re.finditer(r'#\s*include\s+"([^"]+\.c)"', txt):
        for base in (os.path.join(REPO, 'mtbl'), os.path.join(REPO, 'src'), os.path.join(REPO, 'libmy'), HARNESS, REPO):
            p = os.path.join(base, m.group(1))
            if os.path.exists(p):
                out.append(open(p, 'rb').read())
                out.append(included_c_digest(p).encode())
                break
    return hashlib.sha256(b'\0'.join(out)).hexdigest()


def compile_obj(cc, flags, src):
    src_bytes = open(src, 'rb').read()
    key = sha(cc, ' '.join(flags), src, src_bytes, headers_digest(), included_c_digest(src))
    obj = os.path.join(BUILD, 'obj', key + '.o')
    if os.path.exists(obj):
        return obj
    os.makedirs(os.path.dirname(obj), exist_ok=True)
    tmp = obj + '.tmp%d' % os.getpid()
    cmd = [cc] + flags + ['-c', src, '-o', tmp]
    r = subprocess.run(cmd, capture_output=True, text=True)
    if r.returncode != 0:
        raise BuildError('compile failed: %s\n%s' % (' '.join(cmd), r.stderr[-4000:]))
    os.replace(tmp, obj)
    return obj


class BuildError(Exception):
    pass


BLACKBOX_FALLBACKS = {}     # harness file -> first line of the compiler error that made the white-box view unavailable


def build(spec):
    """spec: dict(harness=, flavor=, exclude=[lib srcs], tu_flags={src:[flags]}, lib_flags=[...], extra=[(src, flavor_or_None)],
                 ldflags=[], nolib=False, blackbox=dict(exclude=[...], extra=[...]) or absent)

    Harnesses that look at private structures of the repository (to identify states) #include the repository's .c files.  If such a
    harness no longer compiles (private fields renamed, functions restructured) that says nothing about the property: when the spec
    names a black-box variant, the harness is rebuilt with -DVH_BLACKBOX against the public API only (state identity = history,
    searches bounded by depth instead of a fixpoint) and the fallback is recorded in the evidence."""
    try:
        if os.environ.get('VERIF_FORCE_BLACKBOX') and spec.get('blackbox') is not None:     # testing aid: exercise the fallback on any tree
            e = BuildError('forced by VERIF_FORCE_BLACKBOX')
            e.in_harness = True
            raise e
        return _build(spec)
    except BuildError as e:
        bb = spec.get('blackbox')
        if bb is None or not getattr(e, 'in_harness', False):
            raise
        first = next((l for l in str(e).splitlines() if 'error' in l), str(e).splitlines()[0] if str(e) else '')
        BLACKBOX_FALLBACKS[spec['harness']] = first.strip()[:300]
        s2 = dict(spec)
        s2.pop('blackbox')
        s2['hflags'] = spec.get('hflags', []) + ['-DVH_BLACKBOX']
        s2['exclude'] = bb.get('exclude', [])
        s2['extra'] = bb.get('extra', [])
        if bb.get('tu_flags'):
            s2['tu_flags'] = bb['tu_flags']
        return _build(s2)


def _build(spec):
    fl = FLAVORS[spec.get('flavor', 'asan')]
    inc = ['-include', config_h(), '-I' + REPO, '-I' + os.path.join(REPO, 'mtbl'), '-I' + HARNESS,
           '-I' + os.path.join(REPO, 'src')]
    if not os.path.exists(os.path.join(REPO, 'config.h')):
        inc.append('-I' + BUILD)          # libmy/my_byteorder.h includes "config.h": let it find the generated fallback
    base = fl['cflags'] + COMMON_CFLAGS + inc
    hjobs, jobs = [], []
    hsrc = os.path.join(HARNESS, spec['harness'])
    hjobs.append((fl['cc'], base + spec.get('hflags', []), hsrc))
    if not spec.get('nolib'):
        for s in LIB_SRCS:
            if s in spec.get('exclude', []):
                continue
            f = base + LIB_STOP_FLAGS + spec.get('lib_flags', []) + spec.get('tu_flags', {}).get(s, [])
            jobs.append((fl['cc'], f, os.path.join(REPO, s)))
    for (s, flv) in spec.get('extra', []):
        if flv == 'nosan':
            f = ['-O1', '-g'] + COMMON_CFLAGS + inc
            hjobs.append((fl['cc'], f, os.path.join(HARNESS, s)))
        else:
            hjobs.append((fl['cc'], base, os.path.join(HARNESS, s)))
    with ThreadPoolExecutor(max_workers=NCPU) as ex:
        libobjs = list(ex.map(lambda j: compile_obj(*j), jobs))     # a library file that does not compile is a real build failure
        try:
            hobjs = list(ex.map(lambda j: compile_obj(*j), hjobs))
        except BuildError as e:
            e.in_harness = True
            raise
    objs = hobjs[:1] + libobjs + hobjs[1:]
    ld = fl['ldflags'] + spec.get('ldflags', [])
    key = sha(fl['cc'], ' '.join(objs), ' '.join(ld))
    exe = os.path.join(BUILD, 'bin', os.path.splitext(spec['harness'])[0] + '-' + key)
    if not os.path.exists(exe):
        os.makedirs(os.path.dirname(exe), exist_ok=True)
        cmd = [fl['cc']] + objs + ld + LIBS + ['-o', exe + '.tmp%d' % os.getpid()]
        r = subprocess.run(cmd, capture_output=True, text=True)
        if r.returncode != 0:
            raise BuildError('link failed: %s\n%s' % (' '.join(cmd), r.stderr[-4000:]))
        os.replace(exe + '.tmp%d' % os.getpid(), exe)
    return exe


def build_tool(name):
    """build one of the repository's command line tools (mtbl_dump, mtbl_info, mtbl_verify, mtbl_merge) from the working tree"""
    fl = FLAVORS['fast']
    inc = ['-include', config_h(), '-I' + REPO, '-I' + os.path.join(REPO, 'mtbl')]
    if not os.path.exists(os.path.join(REPO, 'config.h')):
        inc.append('-I' + BUILD)
    base = fl['cflags'] + COMMON_CFLAGS + inc
    jobs = [(fl['cc'], base, os.path.join(REPO, 'src', name + '.c'))]
    for s in LIB_SRCS:
        jobs.append((fl['cc'], base, os.path.join(REPO, s)))
    if name == 'mtbl_merge':
        pass
    with ThreadPoolExecutor(max_workers=NCPU) as ex:
        objs = list(ex.map(lambda j: compile_obj(*j), jobs))
    key = sha('tool', ' '.join(objs))
    exe = os.path.join(BUILD, 'bin', name + '-' + key)
    if not os.path.exists(exe):
        os.makedirs(os.path.dirname(exe), exist_ok=True)
        cmd = [fl['cc']] + objs + LIBS + ['-rdynamic', '-o', exe + '.tmp%d' % os.getpid()]
        r = subprocess.run(cmd, capture_output=True, text=True)
        if r.returncode != 0:
            raise BuildError('link failed: %s\n%s' % (' '.join(cmd), r.stderr[-4000:]))
        os.replace(exe + '.tmp%d' % os.getpid(), exe)
    return exe


def build_dso(name):
    """build a harness-side shared object (e.g. the merge function DSO for mtbl_merge)"""
    src = os.path.join(HARNESS, name + '.c')
    key = sha('dso', open(src, 'rb').read())
    out = os.path.join(BUILD, 'bin', name + '-' + key + '.so')
    if not os.path.exists(out):
        os.makedirs(os.path.dirname(out), exist_ok=True)
        r = subprocess.run(['gcc', '-O1', '-g', '-shared', '-fPIC', src, '-o', out + '.tmp%d' % os.getpid()], capture_output=True, text=True)
        if r.returncode != 0:
            raise BuildError('dso build failed: ' + r.stderr[-2000:])
        os.replace(out + '.tmp%d' % os.getpid(), out)
    return out


# ------------------------------------------------------------------ running

def load_known():
    known, fixed = [], []
    p = os.path.join(VERIF, 'known_findings.txt')
    if os.path.exists(p):
        for line in open(p):
            line = line.strip()
            if line.startswith('known:'):
                m = re.match(r'known:\s+property=(\S+)\s+key=(\S+)\s*(.*)', line)
                if m:
                    known.append((m.group(1), m.group(2), m.group(3)))
            elif line.startswith('fixed:'):
                fixed.append(line)
    return known, fixed


class JobResult:
    def __init__(self):
        self.stats = {}
        self.maxes = {}
        self.sigs = set()
        self.samples = []
        self.violations = []
        self.errors = []
        self.incomplete = False
        self.wall = 0.0
        self.crash_notes = []
        self.notes = []


def run_job(pid, job, tier, deadline, env_extra=None):
    """job: dict(name, spec, args(list or callable(tier)), shards, tools=[...])"""
    res = JobResult()
    t0 = time.time()
    try:
        exe = build(job['spec'])
        toolenv = {}
        for t in job.get('tools', []):
            toolenv['VERIF_TOOL_' + t.upper()] = build_tool(t)
        for d in job.get('dsos', []):
            toolenv['VERIF_DSO_' + d.upper()] = build_dso(d)
    except BuildError as e:
        res.errors.append('BUILD: ' + str(e))
        return res
    args = job['args'](tier) if callable(job['args']) else list(job['args'])
    shards = job.get('shards', NCPU)
    if callable(shards):
        shards = shards(tier)
    scratch = tempfile.mkdtemp(prefix='verif-%s-' % pid, dir=os.environ.get('VERIF_SCRATCH', '/var/tmp'))
    env = dict(os.environ)
    env.update(toolenv)
    env['VERIF_SCRATCH_DIR'] = scratch
    env['VERIF_REPO'] = REPO
    env.setdefault('ASAN_OPTIONS', 'detect_leaks=0:abort_on_error=0:allocator_may_return_null=1:exitcode=77:detect_stack_use_after_return=0:handle_segv=0:handle_sigbus=0')
    env.setdefault('TSAN_OPTIONS', 'halt_on_error=0:report_signal_unsafe=0:second_deadlock_stack=1')
    if env_extra:
        env.update(env_extra)
    if job.get('env'):
        env.update(job['env'])
    procs = []
    for i in range(shards):
        cmd = [exe, '--prop', pid, '--tier', tier, '--shard', '%d/%d' % (i, shards), '--deadline', str(int(deadline))] + args
        out = open(os.path.join(scratch, 'out.%d' % i), 'wb')
        err = open(os.path.join(scratch, 'err.%d' % i), 'wb')
        sdir = os.path.join(scratch, 's%d' % i)
        os.makedirs(sdir, exist_ok=True)
        e = dict(env)
        e['VERIF_SCRATCH_DIR'] = sdir
        procs.append((subprocess.Popen(cmd, stdout=out, stderr=err, env=e, cwd=sdir), cmd, out, err))
    hard = deadline + 120
    for i, (p, cmd, out, err) in enumerate(procs):
        killed = False
        try:
            p.wait(timeout=max(1, hard - time.time()))
        except subprocess.TimeoutExpired:
            p.kill()
            p.wait()
            killed = True
            res.incomplete = True
            res.notes.append('shard %d of %s was still running 120 s after the wall-clock budget ended and was stopped (budget, not a verdict; hangs inside one case are caught by the per-case watchdog)' % (i, job['name']))
        out.close()
        err.close()
        got_done = False
        nviol_lines = 0
        with open(os.path.join(scratch, 'out.%d' % i), 'r', errors='replace') as f:
            for line in f:
                if not line.startswith('@'):
                    continue
                try:
                    kind, payload = line[1:].split(' ', 1)
                    d = json.loads(payload)
                except Exception:
                    res.errors.append('unparsable harness line: ' + line[:200])
                    continue
                if kind == 'stat':
                    for k, v in d.items():
                        if k.startswith('max_'):
                            res.maxes[k] = max(res.maxes.get(k, 0), v)
                        else:
                            res.stats[k] = res.stats.get(k, 0) + v
                elif kind == 'sigs':
                    res.sigs.update(d)
                elif kind == 'sample':
                    if len(res.samples) < 12:
                        res.samples.append(d)
                elif kind == 'violation':
                    nviol_lines += 1
                    d['job'] = job['name']
                    d['argv'] = args
                    res.violations.append(d)
                elif kind == 'incomplete':
                    res.incomplete = True
                elif kind == 'done':
                    got_done = True
                elif kind == 'note':
                    if len(res.notes) < 20:
                        res.notes.append('%s: %s' % (job['name'], d))
                elif kind == 'error':
                    res.errors.append('%s shard %d: %s' % (job['name'], i, d))
        if p.returncode not in (0, 1) or not got_done:
            tail = open(os.path.join(scratch, 'err.%d' % i), 'r', errors='replace').read()[-3000:]
            if killed:
                pass
            elif nviol_lines == 0:
                # the harness died while running library code and could not attribute it to a case:
                # still a failure of the code under test, reported against the shard
                res.violations.append({'key': 'crash', 'job': job['name'], 'argv': args,
                                       'case': '(unattributed) shard %d/%d' % (i, shards),
                                       'what': 'harness process died rc=%s; stderr tail: %s' % (p.returncode, tail[-1500:])})
            else:
                res.crash_notes.append('%s shard %d ended rc=%s after reporting a violation' % (job['name'], i, p.returncode))
    shutil.rmtree(scratch, ignore_errors=True)
    res.wall = time.time() - t0
    return res


def do_check(pid, tier, seed):
    import checks
    if pid not in checks.CHECKS:
        print('unknown property', pid)
        return 2
    chk = checks.CHECKS[pid]
    t0 = time.time()
    budget = chk.get('budget', {}).get(tier, 240 if tier == 'quick' else 1800)
    budget = int(os.environ.get('VERIF_BUDGET_S', budget))
    deadline = t0 + budget
    known, fixed = load_known()
    total_stats, maxes, sigs, samples, violations, errors = {}, {}, set(), [], [], []
    per_job = []
    notes = []
    incomplete = False
    for job in chk['jobs']:
        if os.environ.get('VERIF_ONLY_JOB') and job['name'] not in os.environ['VERIF_ONLY_JOB'].split(','):      # development aid
            continue
        if job.get('tiers') and tier not in job['tiers']:
            continue
        r = run_job(pid, job, tier, deadline)
        for k, v in r.stats.items():
            total_stats[k] = total_stats.get(k, 0) + v
        for k, v in r.maxes.items():
            maxes[k] = max(maxes.get(k, 0), v)
        sigs.update((job['name'], s) for s in r.sigs)
        for s in r.samples:
            if len(samples) < 16:
                samples.append({'job': job['name'], 'case': s})
        violations += r.violations
        errors += r.errors
        notes += r.notes
        incomplete = incomplete or r.incomplete
        per_job.append({'job': job['name'], 'wall_s': round(r.wall, 2), 'stats': r.stats, 'maxes': r.maxes,
                        'distinct_signatures': len(r.sigs), 'complete': not r.incomplete})
        print('[%s] job %-22s %6.1fs  %s%s' % (pid, job['name'], r.wall,
              ' '.join('%s=%d' % kv for kv in sorted(r.stats.items())[:8]), '  (INCOMPLETE: budget)' if r.incomplete else ''), flush=True)
    # vacuity guards
    for g in chk.get('nonzero', []):
        if total_stats.get(g, 0) == 0 and maxes.get(g, 0) == 0 and not errors and not violations and not incomplete and not os.environ.get('VERIF_ONLY_JOB'):
            errors.append('vacuity guard: counter %r is zero' % g)
    # violations -> replay files; known findings
    real, knownhits = [], []
    os.makedirs(os.path.join(VERIF, 'replays', pid), exist_ok=True)
    seen_keys = set()
    for v in violations:
        key = v.get('key', '')
        hit = [k for k in known if k[0] == pid and k[1] == key]
        if hit:
            if key not in seen_keys:
                knownhits.append((key, hit[0][2]))
                seen_keys.add(key)
            continue
        real.append(v)
    for key, desc in knownhits:
        print('KNOWN-FINDING: property=%s %s %s' % (pid, key, desc))
    shown = 0
    for v in real:
        h = sha(json.dumps(v, sort_keys=True))[:16]
        path = os.path.join(VERIF, 'replays', pid, h + '.json')
        v2 = dict(v)
        v2['property_id'] = pid
        v2['tier'] = tier
        jobdef = [j for j in chk['jobs'] if j['name'] == v['job']][0]
        v2['harness'] = jobdef['spec']['harness']
        with open(path, 'w') as f:
            json.dump(v2, f, indent=1)
        if shown < 10:
            print('VIOLATION property=%s replay=%s' % (pid, path))
            print('   case: %s' % str(v.get('case'))[:300])
            print('   what: %s' % str(v.get('what'))[:600])
        shown += 1
    if shown > 10:
        print('   ... %d violations in total' % shown)
    wall = time.time() - t0
    cov = dict(chk.get('coverage_static', {}))
    states = int(total_stats.get(chk.get('states_key', 'states'), 0))
    trans = int(total_stats.get(chk.get('transitions_key', 'transitions'), 0))
    traces = int(total_stats.get(chk.get('traces_key', 'executions'), 0))
    evals = int(total_stats.get(chk.get('evals_key', 'cases'), 0)) or traces or states
    cov.update({
        'states': states, 'transitions': trans, 'traces_validated_against_impl': traces,
        'evaluations': evals, 'distinct_nontrivial': len(sigs),
        'rule': chk.get('rule', ''),
        'samples': samples if samples else [{'note': 'no sample emitted'}],
        'exhaustive': (not incomplete) and not errors,
        'bounds': chk.get('bounds', {}).get(tier, ''),
        'counters': total_stats, 'maxima': maxes, 'jobs': per_job,
        'known_findings_hit': [k for k, _ in knownhits],
    })
    used_bb = {h: why for h, why in BLACKBOX_FALLBACKS.items() if any(j['spec']['harness'] == h for j in chk['jobs'])}
    if used_bb:
        for h, why in used_bb.items():
            msg = ('white-box state view of %s does not compile against this tree (%s); fell back to the black-box build: states are '
                   'identified by their history (nothing merged), fixpoint searches become depth-bounded trees' % (h, why))
            print('NOTE [%s]: %s' % (pid, msg))
            notes.append(msg)
        cov['whitebox_view'] = False
    if notes:
        cov['notes'] = notes[:20]
    if incomplete:
        cov['budget_note'] = 'wall-clock budget of %ds ended before every bound was completed; see jobs[].complete' % budget
    ev = {
        'property_id': pid, 'tier': tier, 'seed': seed, 'level': chk['level'],
        'coverage': cov,
        'assumptions': chk.get('assumptions', []),
        'wall_s': round(wall, 2), 'violations': len(real),
        'engine_errors': errors,
    }
    os.makedirs(os.path.join(VERIF, 'evidence'), exist_ok=True)
    with open(os.path.join(VERIF, 'evidence', pid + '.json'), 'w') as f:
        json.dump(ev, f, indent=1, sort_keys=True)
    if errors:
        for e in errors[:10]:
            print('ENGINE-ERROR [%s]: %s' % (pid, e))
        print('[%s] engine error(s): the check itself is broken or could not run; not a property verdict' % pid)
        return 2 if not real else 1
    print('[%s] %s tier=%s states=%d transitions=%d executions=%d distinct=%d exhaustive=%s wall=%.1fs' % (
        pid, 'VIOLATED' if real else 'ok', tier, states, trans, traces, len(sigs), cov['exhaustive'], wall))
    return 1 if real else 0


def do_replay(path):
    import checks
    v = json.load(open(path))
    pid = v['property_id']
    chk = checks.CHECKS[pid]
    job = [j for j in chk['jobs'] if j['name'] == v['job']][0]
    exe = build(job['spec'])
    env = dict(os.environ)
    for t in job.get('tools', []):
        env['VERIF_TOOL_' + t.upper()] = build_tool(t)
    for d in job.get('dsos', []):
        env['VERIF_DSO_' + d.upper()] = build_dso(d)
    scratch = tempfile.mkdtemp(prefix='verif-replay-', dir='/var/tmp')
    env['VERIF_SCRATCH_DIR'] = scratch
    env['VERIF_REPO'] = REPO
    env.setdefault('ASAN_OPTIONS', 'detect_leaks=0:abort_on_error=0:handle_segv=0:handle_sigbus=0:exitcode=77')
    if job.get('env'):
        env.update(job['env'])
    cmd = [exe, '--prop', pid, '--tier', v.get('tier', 'quick'), '--shard', '0/1', '--deadline', str(int(time.time()) + 600)] + v.get('argv', []) + ['--case', v['case']]
    print('replaying:', ' '.join(cmd))
    r = subprocess.run(cmd, env=env, cwd=scratch)
    shutil.rmtree(scratch, ignore_errors=True)
    return r.returncode


def do_setup():
    import checks
    t0 = time.time()
    specs = []
    tools = set()
    for pid, chk in checks.CHECKS.items():
        for job in chk['jobs']:
            specs.append((pid, job))
            tools.update(job.get('tools', []))
            for d in job.get('dsos', []):
                build_dso(d)
    ok = True
    for pid, job in specs:
        try:
            build(job['spec'])
        except BuildError as e:
            print('setup: build of %s/%s failed:\n%s' % (pid, job['name'], e))
            ok = False
    for t in sorted(tools):
        try:
            build_tool(t)
        except BuildError as e:
            print('setup: build of tool %s failed:\n%s' % (t, e))
            ok = False
    print('setup: %d harness builds, %d tools in %.1fs' % (len(specs), len(tools), time.time() - t0))
    return 0 if ok else 1


def do_manifest():
    import checks
    props = [json.loads(l) for l in open(os.path.join(VERIF, 'properties.jsonl')) if l.strip()]
    entries, na = [], []
    for p in props:
        pid = p['id']
        c = checks.CHECKS.get(pid)
        if not c:
            na.append({'property_id': pid, 'reason': checks.NOT_APPLICABLE.get(pid, 'check not built yet in this round; no claim is made')})
            continue
        entries.append({
            'property_id': pid,
            'quick_cmd': './verif check %s --tier quick' % pid,
            'thorough_cmd': './verif check %s --tier thorough' % pid,
            'evidence_file': 'evidence/%s.json' % pid,
            'replay_cmd_template': './verif replay {path}',
            'engine': c.get('engine', 'seqx'),
            'level_claimed': {'category': c['level'], 'text': c.get('text', ''), 'design_ref': c.get('design_ref', 'DESIGN.md section 4 ' + pid)},
            'level_note': c.get('note', '; '.join(c.get('assumptions', []))),
            'technique': c.get('technique', 'bounded-exhaustive enumeration on the real code against a reference model'),
        })
    m = {
        'version': 1,
        'setup_cmd': './verif setup',
        'hooks': {
            'guard': 'MTBL_VERIF',
            'enable': 'harnesses compile /repo/mtbl/*.c and the needed /repo/libmy/*.c themselves with -DMTBL_VERIF (see lib/driver.py); the repository build system is not used by the checks',
            'baseline_off_cmd': 'cd /repo && make -j8 && make check',
            'source_commits': checks.HOOK_COMMITS,
            'add_only': True,
        },
        'engines': checks.ENGINES,
        'checks': entries,
        'notes': checks.NOTES,
        'not_applicable': na,
    }
    with open(os.path.join(VERIF, 'MANIFEST.json'), 'w') as f:
        json.dump(m, f, indent=1)
    print('MANIFEST.json: %d checks, %d not_applicable' % (len(entries), len(na)))
    return 0


def main(argv):
    ap = argparse.ArgumentParser(prog='verif')
    sub = ap.add_subparsers(dest='cmd')
    sub.add_parser('setup')
    sub.add_parser('list')
    sub.add_parser('manifest')
    c = sub.add_parser('check')
    c.add_argument('pid')
    c.add_argument('--tier', default=os.environ.get('VERIF_TIER', 'quick'), choices=['quick', 'thorough'])
    r = sub.add_parser('replay')
    r.add_argument('path')
    a = ap.parse_args(argv)
    seed = int(os.environ.get('VERIF_SEED', '0') or 0)
    if a.cmd == 'setup':
        return do_setup()
    if a.cmd == 'manifest':
        return do_manifest()
    if a.cmd == 'list':
        import checks
        for k, v in sorted(checks.CHECKS.items()):
            print(k, [j['name'] for j in v['jobs']])
        return 0
    if a.cmd == 'check':
        return do_check(a.pid, a.tier, seed)
    if a.cmd == 'replay':
        return do_replay(a.path)
    ap.print_help()
    return 2
