#!/usr/bin/env python3
"""keep_eval.py <id> <source-dir> <property> [more properties ...]

For a change that is meant to PRESERVE the property: confirm that it applies, builds and passes `make check` in a fresh
worktree, then apply it to /repo, run the quick tier of the given properties (all must exit 0), undo it, store patch + meta.json
under /verif/seeded/<id>/ (kind = behaviour-preserving)."""
import sys, os, subprocess, json, shutil, time, re
VERIF = os.path.dirname(os.path.dirname(os.path.abspath(__file__)))
def sh(cmd, **kw): return subprocess.run(cmd, shell=True, capture_output=True, text=True, **kw)
def main():
    sid, src, props = sys.argv[1], sys.argv[2], sys.argv[3:]
    patch = os.path.join(src, 'patch.diff'); wt = '/tmp/ev-%s' % sid
    sh('git -C /repo worktree remove --force %s' % wt); sh('%s/lib/mk_worktree.sh %s' % (VERIF, wt))
    meta = {'seed_id': sid, 'kind': 'behaviour-preserving change (must NOT raise an alarm)', 'targets_property': props[0], 'evaluated_at': time.strftime('%Y-%m-%dT%H:%M:%SZ', time.gmtime()),
            'repo_head': sh('git -C /repo rev-parse --short HEAD').stdout.strip(), 'changed_lines': sum(1 for l in open(patch) if l[:1] in '+-' and l[:3] not in ('+++', '---'))}
    try:
        meta['patch_applies'] = sh('git -C %s apply %s' % (wt, patch)).returncode == 0
        b = sh('cd %s && make -j8 2>&1 | tail -3 && make check 2>&1 | grep -E "^# (PASS|FAIL|ERROR)"' % wt)
        flat = ' '.join(b.stdout.split())
        meta['tests_pass_with_change'] = '# PASS: 15' in flat and '# FAIL: 0' in flat
    finally:
        sh('git -C /repo worktree remove --force %s' % wt); sh('git -C /repo worktree prune')
    results = {}
    if meta.get('patch_applies') and meta.get('tests_pass_with_change'):
        if sh('git -C /repo status --porcelain --untracked-files=no').stdout.strip():
            print('refusing: /repo has uncommitted changes'); return 2
        try:
            sh('git -C /repo apply %s' % patch)
            for p in props:
                t0 = time.time(); c = sh('cd %s && ./verif check %s --tier quick' % (VERIF, p))
                m = re.search(r'VIOLATION[^\n]*\n\s+case: ([^\n]*)\n\s+what: ([^\n]*)', c.stdout); e = re.search(r'ENGINE-ERROR[^\n]*', c.stdout)
                results[p] = {'rc': c.returncode, 'first': ('case %s: %s' % (m.group(1)[:160], m.group(2)[:300])) if m else (e.group(0)[:400] if e else ''), 'wall_s': round(time.time() - t0, 1)}
                print('  %s on preserving change %s: rc=%d %s' % (p, sid, c.returncode, results[p]['first'][:300]))
        finally:
            sh('git -C /repo checkout -- .'); sh('cd %s && git checkout -- evidence/' % VERIF)
    meta['our_checks'] = results
    meta['alarms'] = [p for p, r in results.items() if r['rc'] != 0]
    dst = os.path.join(VERIF, 'seeded', sid)
    if os.path.exists(dst): shutil.rmtree(dst)
    os.makedirs(dst); shutil.copy(patch, os.path.join(dst, 'patch.diff'))
    if os.path.exists(os.path.join(src, 'NOTES.md')): shutil.copy(os.path.join(src, 'NOTES.md'), os.path.join(dst, 'NOTES.md'))
    json.dump(meta, open(os.path.join(dst, 'meta.json'), 'w'), indent=1)
    print('change %s: applies=%s tests=%s alarms=%s' % (sid, meta.get('patch_applies'), meta.get('tests_pass_with_change'), meta['alarms']))
sys.exit(main() or 0)
