#!/usr/bin/env python3
"""regress_seeds.py [ids...] -- regression over everything kept under /verif/seeded/: apply each patch to /repo, run the quick tier of
the property it targets, undo.  Breaking changes (S*, R2-*, R3-*) must make the check exit 1 with a VIOLATION line; behaviour-preserving
changes (P-*) must leave it at exit 0.  Writes build/regress_seeds.json; never touches evidence/ (restored from git afterwards)."""
import sys, os, subprocess, json, time, re
VERIF = os.path.dirname(os.path.dirname(os.path.abspath(__file__)))
def sh(cmd): return subprocess.run(cmd, shell=True, capture_output=True, text=True)
def main():
    want = sys.argv[1:]
    ids = sorted(d for d in os.listdir(os.path.join(VERIF, 'seeded')) if os.path.exists(os.path.join(VERIF, 'seeded', d, 'patch.diff')))
    if want: ids = [i for i in ids if i in want or any(i.startswith(w) for w in want)]
    if sh('git -C /repo status --porcelain --untracked-files=no').stdout.strip():
        print('refusing: /repo has uncommitted changes'); return 2
    out, bad = {}, 0
    for sid in ids:
        meta = json.load(open(os.path.join(VERIF, 'seeded', sid, 'meta.json')))
        prop = meta.get('targets_property') or meta.get('breaks_property') or sid.split('-')[-1]
        keep = sid.startswith('P-')
        patch = os.path.join(VERIF, 'seeded', sid, 'patch.diff')
        t0 = time.time()
        try:
            a = sh('git -C /repo apply %s' % patch)
            if a.returncode != 0:
                out[sid] = {'property': prop, 'result': 'patch no longer applies', 'ok': None}; print('%-8s %s: patch no longer applies to HEAD (%s)' % (sid, prop, a.stderr.strip()[:120])); continue
            c = sh('cd %s && ./verif check %s --tier quick' % (VERIF, prop))
        finally:
            sh('git -C /repo checkout -- .')
        ok = (c.returncode == 0) if keep else (c.returncode == 1 and 'VIOLATION property=%s' % prop in c.stdout)
        bad += 0 if ok else 1
        out[sid] = {'property': prop, 'expect': 'quiet' if keep else 'violation', 'rc': c.returncode, 'ok': ok, 'wall_s': round(time.time() - t0, 1)}
        print('%-8s %s: expect %-9s rc=%d %s (%.0fs)' % (sid, prop, 'quiet' if keep else 'violation', c.returncode, 'ok' if ok else 'UNEXPECTED', time.time() - t0), flush=True)
    sh('cd %s && git checkout -- evidence/' % VERIF)
    os.makedirs(os.path.join(VERIF, 'build'), exist_ok=True)
    json.dump(out, open(os.path.join(VERIF, 'build', 'regress_seeds.json'), 'w'), indent=1)
    print('regression: %d changes, %d unexpected' % (len(out), bad))
    return 1 if bad else 0
sys.exit(main())
