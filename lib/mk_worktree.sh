#!/bin/sh
# usage: mk_worktree.sh <dir>  -- scratch git worktree of /repo HEAD with the (git-ignored) build system copied in and re-pointed
set -e
d=$1
git -C /repo worktree add -q "$d" HEAD
rsync -a --exclude .git --exclude '*.o' --exclude '*.lo' --exclude '.libs' --exclude '*.la' --exclude '*.log' --exclude '*.trs' /repo/ "$d"/
git -C "$d" checkout -q -- .    # /repo may carry an applied seed at this moment: tracked files come from HEAD, only the build system from the copy
sed -i "s|/repo|$d|g" "$d/Makefile" "$d/config.status" 2>/dev/null || true
(cd "$d" && make -j8 >/dev/null 2>&1 && make check 2>&1 | grep -E "^# (PASS|FAIL)" | tr '\n' ' ')
echo " worktree $d ready"
