#!/bin/sh
# run every check of one tier on the current /repo tree, in order; prints a one-line verdict per property
tier=${1:-quick}
cd "$(dirname "$0")"; mkdir -p build
for p in $(python3 -c "import json;print(' '.join(c['property_id'] for c in json.load(open('MANIFEST.json'))['checks']))"); do
  start=$(date +%s)
  ./verif check $p --tier $tier > build/last_$p.log 2>&1
  rc=$?
  echo "$p rc=$rc $(( $(date +%s) - start ))s $(tail -1 build/last_$p.log | cut -c1-200)"
done
