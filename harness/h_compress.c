/* C15: compress/decompress round trip for every algorithm, level and (bounded) buffer; names round trip. */
#include "vh.h"
#include <mtbl.h>
#include <limits.h>
#include <ctype.h>

struct ccase { int algo; int uselevel; int level; int fam; size_t len; };
static void render(char *b, size_t n, void *ctx) { struct ccase *c = ctx; snprintf(b, n, "cmp:%d:%d:%d:%d:%zu", c->algo, c->uselevel, c->level, c->fam, c->len); }

static void fill(uint8_t *p, size_t n, int fam) {
	uint32_t x = 2463534242u;
	switch (fam) {
	case 0: memset(p, 0, n); break;
	case 1: memset(p, 0xff, n); break;
	case 2: for (size_t i = 0; i < n; i++) p[i] = (uint8_t) i; break;
	case 3: for (size_t i = 0; i < n; i++) p[i] = "ab"[i & 1]; break;
	case 4: for (size_t i = 0; i < n; i++) p[i] = "xyz"[i % 3]; break;
	case 5: for (size_t i = 0; i < n; i++) { x ^= x << 13; x ^= x >> 17; x ^= x << 5; p[i] = x >> 11; } break;
	case 6: for (size_t i = 0; i < n; i++) { x ^= x << 13; x ^= x >> 17; x ^= x << 5; p[i] = (x >> 8 & 3) ? x >> 11 : 0; } break;
	}
}

static void check(int algo, int uselevel, int level, int fam, size_t len) {
	struct ccase c = { algo, uselevel, level, fam, len };
	vh_case_begin(render, &c);
	uint8_t *in = malloc(len + (len == 0));
	fill(in, len, fam);
	uint8_t *out = NULL, *back = NULL; size_t outlen = 0, backlen = 0;
	sigjmp_buf jb;
	mtbl_res r;
	if (VH_TRY_ASSERT(jb)) {
		r = uselevel ? mtbl_compress_level(algo, level, in, len, &out, &outlen) : mtbl_compress(algo, in, len, &out, &outlen);
		VH_END_ASSERT();
	} else {
		vh_violation("abort-compress", "compress aborted instead of reporting failure: %s", vh_assert_msg);
		goto done;
	}
	VH_COUNT("transitions", 1);
	if (r == mtbl_res_success) {
		VH_COUNT("compress_ok", 1);
		/* hand the decompressor an exact-size copy so that over-reads are visible */
		uint8_t *oc = malloc(outlen + (outlen == 0)); memcpy(oc, out, outlen);
		if (VH_TRY_ASSERT(jb)) {
			r = mtbl_decompress(algo, oc, outlen, &back, &backlen);
			VH_END_ASSERT();
			VH_COUNT("transitions", 1);
			if (r != mtbl_res_success) vh_violation("decompress-fails", "compress succeeded (%zu bytes) but decompress reports failure", outlen);
			else if (backlen != len || memcmp(back, in, len)) vh_violation("mismatch", "decompress(compress(x)) != x (got %zu bytes, want %zu)", backlen, len);
			if (r == mtbl_res_success) free(back);
		} else {
			vh_violation("abort-decompress", "decompress of compress() output aborted: %s", vh_assert_msg);
		}
		free(oc); free(out);
	} else {
		VH_COUNT("compress_refused", 1);
	}
done:
	free(in);
	VH_COUNT("cases", 1);
	vh_sig(vh_mix(vh_mix(vh_mix(algo, uselevel ? (level < -3 ? -3 : level > 23 ? 24 : level) + 100 : 0), len < 16 ? len : 16 + (len > 64) + (len > 4096)), fam));
	vh_case_end();
}

static int levels_for(int algo, int *out, int thorough) {
	int n = 0;
	static const int ext[] = { INT_MIN, INT_MIN + 1, -131073, -131072, -131071, -10001, -10000, -9999, -100, INT_MAX - 1, INT_MAX };
	for (unsigned i = 0; i < sizeof ext / sizeof *ext; i++) out[n++] = ext[i];
	int lo = -3, hi = 24;
	if (algo == MTBL_COMPRESSION_SNAPPY || algo == MTBL_COMPRESSION_LZ4) { lo = -1; hi = 1; }
	if (algo == MTBL_COMPRESSION_ZLIB) { lo = -3; hi = 11; }
	if (algo == MTBL_COMPRESSION_LZ4HC) { lo = -2; hi = 14; }
	if (algo == MTBL_COMPRESSION_ZSTD && !thorough) { hi = 23; }
	for (int l = lo; l <= hi; l++) out[n++] = l;
	return n;
}

static void names(void) {
	static const char *valid[] = { "none", "snappy", "zlib", "lz4", "lz4hc", "zstd" };
	static const int vals[] = { MTBL_COMPRESSION_NONE, MTBL_COMPRESSION_SNAPPY, MTBL_COMPRESSION_ZLIB, MTBL_COMPRESSION_LZ4, MTBL_COMPRESSION_LZ4HC, MTBL_COMPRESSION_ZSTD };
	char cb[128];
	for (int v = -2; v <= 9; v++) {
		const char *s = mtbl_compression_type_to_str((mtbl_compression_type) v);
		int known = -1; for (int i = 0; i < 6; i++) if (vals[i] == v) known = i;
		snprintf(cb, sizeof cb, "name:enum:%d", v);
		if (known >= 0) {
			mtbl_compression_type t = (mtbl_compression_type) 99;
			if (!s || strcmp(s, valid[known])) vh_violation_case("to_str", cb, "to_str(%d) = %s, expected %s", v, s ? s : "NULL", valid[known]);
			else if (mtbl_compression_type_from_str(s, &t) != mtbl_res_success || (int) t != v) vh_violation_case("from_str", cb, "from_str(to_str(%d)) does not give %d back", v, v);
		} else if (s != NULL) vh_violation_case("to_str-unknown", cb, "to_str(%d) = %s for a value that is no algorithm", v, s);
		VH_COUNT("transitions", 2); VH_COUNT("cases", 1);
	}
	/* every string of length <= 4 over the letters of the names (both cases) and digits 4 */
	const char *alpha = "nonesapyzlib4hctdNOESAPYZLIBHCTD ";
	int na = (int) strlen(alpha);
	char s[16];
	uint64_t idx = 0;
	for (int len = 0; len <= 4; len++) {
		uint64_t total = 1; for (int i = 0; i < len; i++) total *= na;
		for (uint64_t x = 0; x < total; x++) {
			if (!vh_mine(idx++ >> 8)) continue;
			uint64_t y = x; for (int i = 0; i < len; i++) { s[i] = alpha[y % na]; y /= na; } s[len] = 0;
			int expect = -1; for (int i = 0; i < 6; i++) if (!strcasecmp(s, valid[i])) expect = vals[i];
			mtbl_compression_type t = (mtbl_compression_type) 99;
			mtbl_res r = mtbl_compression_type_from_str(s, &t);
			if (expect < 0 && r == mtbl_res_success) { snprintf(cb, sizeof cb, "name:str:%s", s); vh_violation_case("accepts-unknown", cb, "from_str accepts unknown name '%s' as %d", s, (int) t); }
			/* the statement only demands that the canonical names round trip and that unknown names are refused: a name that differs from a canonical
			 * one in letter case may be accepted (as today) or refused, but must never yield another algorithm */
			{ bool exact = false; for (int i = 0; i < 6; i++) if (!strcmp(s, valid[i])) exact = true;
			  if (expect >= 0 && exact && (r != mtbl_res_success || (int) t != expect)) { snprintf(cb, sizeof cb, "name:str:%s", s); vh_violation_case("refuses-known", cb, "from_str('%s') should give %d", s, expect); }
			  if (expect >= 0 && !exact && r == mtbl_res_success && (int) t != expect) { snprintf(cb, sizeof cb, "name:str:%s", s); vh_violation_case("wrong-type", cb, "from_str('%s') gives %d, the only acceptable answers are %d or refusal", s, (int) t, expect); } }
			VH_COUNT("transitions", 1); VH_COUNT("cases", 1);
		}
	}
	/* one-edit neighbours of every valid name (delete, substitute, insert over a small alphabet) plus case variants */
	if (vh_shard == 0) {
		const char *sub = "abehlnopstyz45 _-0";
		for (int i = 0; i < 6; i++) {
			size_t L = strlen(valid[i]);
			for (size_t pos = 0; pos <= L; pos++) for (int op = 0; op < 3; op++) for (const char *q = sub; *q; q++) {
				char t2[32];
				if (op == 0) { if (pos >= L) continue; snprintf(t2, sizeof t2, "%.*s%s", (int) pos, valid[i], valid[i] + pos + 1); if (q != sub) continue; }
				else if (op == 1) { if (pos >= L) continue; snprintf(t2, sizeof t2, "%.*s%c%s", (int) pos, valid[i], *q, valid[i] + pos + 1); }
				else snprintf(t2, sizeof t2, "%.*s%c%s", (int) pos, valid[i], *q, valid[i] + pos);
				int expect = -1; for (int k = 0; k < 6; k++) if (!strcasecmp(t2, valid[k])) expect = vals[k];
				mtbl_compression_type t = (mtbl_compression_type) 99;
				mtbl_res r = mtbl_compression_type_from_str(t2, &t);
				bool exact2 = false; for (int k = 0; k < 6; k++) if (!strcmp(t2, valid[k])) exact2 = true;
				if ((expect < 0 && r == mtbl_res_success) || (expect >= 0 && exact2 && r != mtbl_res_success) || (expect >= 0 && r == mtbl_res_success && (int) t != expect)) { snprintf(cb, sizeof cb, "name:str:%s", t2); vh_violation_case("edit", cb, "from_str('%s') -> res=%d type=%d, expected %d", t2, (int) r, (int) t, expect); }
				VH_COUNT("transitions", 1); VH_COUNT("cases", 1);
			}
			for (unsigned m = 0; m < (1u << L); m++) {
				char t2[32]; for (size_t k = 0; k < L; k++) t2[k] = (m >> k & 1) ? toupper((unsigned char) valid[i][k]) : valid[i][k]; t2[L] = 0;
				mtbl_compression_type t = (mtbl_compression_type) 99;
				mtbl_res rr = mtbl_compression_type_from_str(t2, &t);
				if ((m == 0 && rr != mtbl_res_success) || (rr == mtbl_res_success && (int) t != vals[i])) { snprintf(cb, sizeof cb, "name:str:%s", t2); vh_violation_case("case", cb, "from_str('%s'): canonical spelling refused, or a case variant mapped to another algorithm", t2); }
				VH_COUNT("transitions", 1); VH_COUNT("cases", 1);
			}
		}
		vh_sample("name:str:LZ4hc");
	}
}

int main(int argc, char **argv) {
	vh_init(argc, argv);
	if (vh_case_arg) {
		struct ccase c;
		if (sscanf(vh_case_arg, "cmp:%d:%d:%d:%d:%zu", &c.algo, &c.uselevel, &c.level, &c.fam, &c.len) == 5) check(c.algo, c.uselevel, c.level, c.fam, c.len);
		else if (!strncmp(vh_case_arg, "name:", 5)) { vh_nshards = 1; vh_shard = 0; names(); }
		return vh_finish();
	}
	const char *mode = vh_arg(0, "all");
	if (!strcmp(mode, "names")) { names(); return vh_finish(); }
	static const int algos[] = { MTBL_COMPRESSION_SNAPPY, MTBL_COMPRESSION_ZLIB, MTBL_COMPRESSION_LZ4, MTBL_COMPRESSION_LZ4HC, MTBL_COMPRESSION_ZSTD, MTBL_COMPRESSION_NONE, 6, -1 };
	uint64_t idx = 0;
	if (!strcmp(mode, "small")) {
		size_t maxlen = vh_thorough ? 1000 : 64;
		for (int ai = 0; ai < 8; ai++) {
			int lv[64]; int nl = levels_for(algos[ai], lv, vh_thorough);
			for (size_t len = 0; len <= maxlen; len++) {
				if (!vh_mine(idx++)) continue;
				if (vh_time_up()) goto out;
				for (int fam = 0; fam < 7; fam++) {
					check(algos[ai], 0, 0, fam, len);
					for (int li = 0; li < nl; li++) check(algos[ai], 1, lv[li], fam, len);
				}
			}
		}
		if (vh_shard == 0) { vh_sample("cmp:algo=zlib:level=-1:fam=zeros:len=5"); vh_sample("cmp:algo=zstd:level=22:fam=xorshift:len=64"); }
	} else if (!strcmp(mode, "big")) {
		int kmax = vh_thorough ? 24 : 20;
		static const int lv3[] = { -1, 1, 9 };
		for (int k = 7; k <= kmax; k++) for (int d = -1; d <= 1; d++) for (int ai = 0; ai < 5; ai++) for (int fam = 0; fam < 7; fam++) {
			if (!vh_mine(idx++)) continue;
			if (vh_time_up()) goto out;
			size_t len = ((size_t) 1 << k) + d;
			check(algos[ai], 0, 0, fam, len);
			for (int li = 0; li < 3; li++) check(algos[ai], 1, lv3[li], fam, len);
		}
		if (vh_shard == 0) vh_sample("cmp:algo=lz4hc:level=9:fam=period3:len=1048577");
	}
out:
	return vh_finish();
}
