/* C20: writer output does not depend on how write(2) fragments the I/O; a hard write error stops the process loudly.
 * writer.c is compiled with -Dwrite=vf_write: every write the writer issues is answered from a fault script.
 * All scripts with at most D deviations from "every write completes" are enumerated (DFS over the dynamic call sequence). */
#include "tbl.h"
#include <sys/syscall.h>

/* ---- the seam ---- */
enum { O_FULL = 0, O_EINTR, O_EINTR3, O_SHORT, O_EIO, O_ENOSPC, O_ZERO };
typedef struct { uint8_t kind; uint32_t len; } outcome;
#define MAXCALLS 256
static outcome script[MAXCALLS]; static int nscript;
static int ncalls; static uint32_t call_size[MAXCALLS];
static ic_buf mem;                     /* bytes accepted so far */
static const uint8_t *base; static size_t baselen;   /* expected stream (NULL while recording the baseline) */
static char stream_err[256]; static int hard_seen; static int eintr_pending;
static size_t SC_prefix_len(void);
ssize_t vf_write(int fd, const void *buf, size_t n);
ssize_t vf_write(int fd, const void *buf, size_t n) {
	(void) fd;
	if (eintr_pending > 0) { eintr_pending--; errno = EINTR; return -1; }
	int i = ncalls; if (ncalls < MAXCALLS) { call_size[ncalls] = (uint32_t) n; ncalls++; }
	/* the bytes offered must be exactly the not-yet-accepted continuation of the expected stream */
	if (base && !stream_err[0]) {
		if (mem.n + n > baselen || memcmp(base + mem.n, buf, n)) snprintf(stream_err, sizeof stream_err, "write call #%d offers %zu bytes at stream offset %zu that are not the continuation of the file (repeated or skipped bytes)", i, n, mem.n);
	}
	outcome o = i < nscript ? script[i] : (outcome) { O_FULL, 0 };
	switch (o.kind) {
	case O_EINTR: errno = EINTR; return -1;
	case O_EINTR3: eintr_pending = 2; errno = EINTR; return -1;
	case O_SHORT: { size_t k = o.len < n ? o.len : n; ic_buf_put(&mem, buf, k); return (ssize_t) k; }
	case O_EIO: hard_seen = 1; errno = EIO; return -1;
	case O_ENOSPC: hard_seen = 1; errno = ENOSPC; return -1;
	case O_ZERO: hard_seen = 1; errno = 0; return 0;
	default: ic_buf_put(&mem, buf, n); return (ssize_t) n;
	}
}

/* the same script answers the vectored and positioned variants, should the writer use them: one call = one scripted outcome over the
 * concatenated bytes (a refactoring from write to writev stays covered, and its resume arithmetic after a short count is exercised; seed R7-C01) */
#include <sys/uio.h>
ssize_t vf_writev(int fd, const struct iovec *iov, int cnt);
ssize_t vf_writev(int fd, const struct iovec *iov, int cnt) {
	size_t tot = 0; for (int i = 0; i < cnt; i++) tot += iov[i].iov_len;
	uint8_t *tmp = malloc(tot ? tot : 1); size_t o = 0; for (int i = 0; i < cnt; i++) { memcpy(tmp + o, iov[i].iov_base, iov[i].iov_len); o += iov[i].iov_len; }
	ssize_t r = vf_write(fd, tmp, tot); int e = errno; free(tmp); errno = e; return r;
}
ssize_t vf_pwrite(int fd, const void *buf, size_t n, off_t off);
ssize_t vf_pwrite(int fd, const void *buf, size_t n, off_t off) {
	if (base && !stream_err[0] && (size_t) off != SC_prefix_len() + mem.n) snprintf(stream_err, sizeof stream_err, "positioned write at offset %lld while %zu bytes have been accepted (the table is not written as one contiguous stream)", (long long) off, mem.n);
	return vf_write(fd, buf, n);
}

/* ---- scenario ---- */
typedef struct { int nblocks; int comp; size_t prefix; int pool; } wscen;
static wscen SC;
static size_t SC_prefix_len(void) { return SC.prefix; }
static struct mtbl_threadpool *g_tp;
static bool run_writer(void) {         /* returns true if mtbl_writer_destroy returned normally */
	tkv e[4]; static uint8_t keys[4][2]; static uint8_t *vals[4];
	/* 600-byte values: the writer cuts a block after every entry at block size 1024 */
	for (int i = 0; i < SC.nblocks; i++) { keys[i][0] = 'k'; keys[i][1] = '0' + i; if (!vals[i]) vals[i] = tbl_val(i + 1, 600); e[i].k = keys[i]; e[i].kl = 2; e[i].v = vals[i]; e[i].vl = 600; }
	tcfg cfg = { 0 }; cfg.comp = SC.comp; cfg.block_size = 1024; cfg.prefix = SC.prefix; cfg.pool = g_tp;
	int fd = tbl_write(&cfg, e, SC.nblocks, NULL);
	close(fd);
	return true;
}
static char g_desc[700];
static void render(char *b, size_t n, void *ctx) {
	(void) ctx; int o = snprintf(b, n, "W:%d:%d:%zu:%d:", SC.nblocks, SC.comp, SC.prefix, SC.pool);
	for (int i = 0; i < nscript && o < (int) n - 24; i++) if (script[i].kind != O_FULL) o += snprintf(b + o, n - o, "%d=%d/%u,", i, script[i].kind, script[i].len);
}
static uint64_t n_runs, n_hard, n_short, n_eintr;
static int g_maxd;

/* run the current script; oracle inside. returns number of write calls observed */
static int run_script(void) {
	ncalls = 0; mem.n = 0; stream_err[0] = 0; hard_seen = 0; eintr_pending = 0;
	bool has_hard = false; for (int i = 0; i < nscript; i++) if (script[i].kind >= O_EIO) has_hard = true;
	sigjmp_buf jb; bool returned = false, aborted = false;
	int lowfd = dup(0); close(lowfd);          /* descriptors abandoned by an aborted writer are closed again below */
	if (!SC.pool) {
		if (VH_TRY_ASSERT(jb)) { returned = run_writer(); VH_END_ASSERT(); } else { aborted = true; syscall(SYS_close_range, (unsigned) lowfd, ~0U, 0); }
	} else {
		/* with a pool the writing happens on the result handler thread: an assertion there cannot be unwound, run in a child */
		fflush(stdout);
		pid_t pid = fork();
		if (pid == 0) {
			vh_assert_exit_code = 99;
			g_tp = mtbl_threadpool_init(2);
			run_writer();
			mtbl_threadpool_destroy(&g_tp);
			int rc = 0;
			if (stream_err[0]) rc = 3; else if (!hard_seen && (mem.n != baselen || memcmp(mem.p, base, baselen))) rc = 4;
			_exit(rc);
		}
		int st = 0; waitpid(pid, &st, 0);
		if (WIFEXITED(st) && WEXITSTATUS(st) == 99) aborted = true;
		else if (WIFSIGNALED(st)) aborted = true;
		else if (WIFEXITED(st) && WEXITSTATUS(st) == 3) { returned = true; snprintf(stream_err, sizeof stream_err, "pooled writer offered bytes that are not the continuation of the file"); }
		else if (WIFEXITED(st) && WEXITSTATUS(st) == 4) { returned = true; if (!has_hard) vh_violation("bytes", "pooled writer: final bytes differ from the unfragmented output"); }
		else returned = true;
		/* the parent did not see the calls; replay the call structure pool-less to find the children (same stream) */
	}
	n_runs++; VH_COUNT("executions", 1); VH_COUNT("states", 1);
	if (has_hard) {
		n_hard++;
		if (returned && !aborted && (SC.pool || hard_seen)) vh_violation("hard-error-swallowed", "a hard write error was injected but mtbl_writer_destroy returned normally");
	} else {
		if (aborted) vh_violation("spurious-abort", "no hard error was injected but the writer aborted: %s", vh_assert_msg);
		else if (!SC.pool && base) {
			if (stream_err[0]) vh_violation("stream", "%s", stream_err);
			else if (mem.n != baselen || memcmp(mem.p, base, baselen)) vh_violation("bytes", "final bytes differ from the unfragmented output (%zu vs %zu bytes)", mem.n, baselen);
		} else if (SC.pool && stream_err[0]) vh_violation("stream", "%s", stream_err);
	}
	VH_COUNT("transitions", ncalls);
	return ncalls;
}

static int alts_for(uint32_t n, outcome *out) {
	int k = 0;
	out[k++] = (outcome) { O_EINTR, 0 }; out[k++] = (outcome) { O_EINTR3, 0 };
	if (n <= 64) { for (uint32_t l = 1; l < n; l++) out[k++] = (outcome) { O_SHORT, l }; }
	else { uint32_t ls[5] = { 1, 2, n / 2, n - 2, n - 1 }; for (int i = 0; i < 5; i++) out[k++] = (outcome) { O_SHORT, ls[i] }; }
	out[k++] = (outcome) { O_EIO, 0 }; out[k++] = (outcome) { O_ENOSPC, 0 }; out[k++] = (outcome) { O_ZERO, 0 };
	return k;
}
static uint64_t g_idx; static int g_depth0_items;
static void explore(int n0, int dev) {
	if (vh_too_many() || ((n_runs & 63) == 0 && vh_time_up())) return;
	/* pooled: learn the call structure from a pool-less run of the same script (the byte stream is the same by C13) */
	int calls; uint32_t sizes[MAXCALLS];
	if (SC.pool) { wscen keep = SC; SC.pool = 0; ncalls = 0; mem.n = 0; stream_err[0] = 0; eintr_pending = 0; hard_seen = 0; sigjmp_buf jb; if (VH_TRY_ASSERT(jb)) { run_writer(); VH_END_ASSERT(); } calls = ncalls; memcpy(sizes, call_size, sizeof(uint32_t) * calls); SC = keep; run_script(); }
	else { calls = run_script(); memcpy(sizes, call_size, sizeof(uint32_t) * calls); }
	if (dev >= g_maxd) return;
	for (int i = n0; i < calls && i < MAXCALLS; i++) {
		outcome alt[80]; int na = alts_for(sizes[i], alt);
		for (int a = 0; a < na; a++) {
			if (n0 == 0 && dev == 0 && !vh_mine(g_idx++)) continue;     /* shard on the first deviation */
			int keep = nscript;
			for (int j = nscript; j < i; j++) script[j] = (outcome) { O_FULL, 0 };
			script[i] = alt[a]; nscript = i + 1;
			if (alt[a].kind == O_SHORT) n_short++; else if (alt[a].kind <= O_EINTR3) n_eintr++;
			vh_sig(vh_mix(vh_mix(alt[a].kind, i < 20 ? i : 20), dev));
			if (alt[a].kind >= O_EIO) run_script();                 /* nothing follows a hard error */
			else if (dev == 0 && g_maxd >= 3) {
				/* aborted writers leave their buffers behind (the assertion is unwound with longjmp): run each first-deviation subtree in a child */
				if (vh_batch_fork()) { n_runs = n_hard = n_short = n_eintr = 0; explore(i + 1, dev + 1); vh_count("scripts_with_hard_error", n_hard); vh_count("short_write_deviations", n_short); vh_count("eintr_deviations", n_eintr); vh_batch_exit(); }
			}
			else explore(i + 1, dev + 1);
			nscript = keep;
		}
	}
}

int main(int argc, char **argv) {
	vh_init(argc, argv);
	if (vh_case_arg) {
		int off = 0; const char *s = vh_case_arg;
		if (sscanf(s, "W:%d:%d:%zu:%d:%n", &SC.nblocks, &SC.comp, &SC.prefix, &SC.pool, &off) < 4) return 2;
		s += off; nscript = 0;
		int pool = SC.pool; SC.pool = 0; base = NULL; run_script(); SC.pool = pool;
		uint8_t *b = malloc(mem.n + 1); memcpy(b, mem.p, mem.n); base = b; baselen = mem.n;
		while (*s) { int i, k; unsigned l; int o2; if (sscanf(s, "%d=%d/%u,%n", &i, &k, &l, &o2) < 3) break; for (int j = nscript; j < i; j++) script[j] = (outcome) { O_FULL, 0 }; script[i] = (outcome) { (uint8_t) k, l }; nscript = i + 1; s += o2; }
		vh_case_begin(render, NULL); run_script(); vh_case_end();
		return vh_finish();
	}
	g_maxd = atoi(vh_arg(0, "1"));
	int pooled = vh_has_arg("pool");
	static const wscen SCS[] = { {0, 0, 0, 0}, {1, 0, 0, 0}, {2, 0, 0, 0}, {3, 0, 0, 0}, {3, 0, 13, 0}, {3, 3, 0, 0}, {2, 3, 13, 0} };
	for (unsigned si = 0; si < sizeof SCS / sizeof *SCS; si++) {
		SC = SCS[si]; SC.pool = 0;
		/* baseline: every write completes */
		nscript = 0; base = NULL;
		vh_case_begin(render, NULL);
		run_script();
		uint8_t *b = malloc(mem.n + 1); memcpy(b, mem.p, mem.n); base = b; baselen = mem.n;
		uint8_t *full = calloc(1, SC.prefix + baselen + 1); memcpy(full + SC.prefix, b, baselen);
		ic_file f; if (ic_decode(full, SC.prefix + baselen, &f)) printf("@error \"wfault: baseline does not decode: %s\"\n", f.err); else { if ((int) f.nblocks != SC.nblocks) printf("@error \"wfault: baseline has %zu blocks, wanted %d\"\n", f.nblocks, SC.nblocks); ic_free(&f); }
		free(full);
		vh_max("max_write_calls", ncalls);
		if (pooled) { if (SC.nblocks == 0 || SC.prefix) { vh_case_end(); free(b); continue; } SC.pool = 1; }
		g_idx = 0;
		explore(0, 0);
		vh_case_end();
		free(b); base = NULL;
		if (vh_too_many()) break;
	}
	vh_count("scripts_with_hard_error", n_hard); vh_count("short_write_deviations", n_short); vh_count("eintr_deviations", n_eintr);
	if (vh_shard == 0) vh_sample("3 blocks, lz4: call 2 (block bytes) returns short 1 byte, call 5 returns EINTR three times, every other write completes");
	return vh_finish();
}
