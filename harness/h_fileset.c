/* C07: fileset view follows the setfile; open iterators pin their snapshot; dup handles stay valid and current.
 * Explicit-state search (bfs.h) over histories of: setfile rewrites, clock ticks, reload / reload_now / open / step / close /
 * observe on two handles (A and B = dup(A) with a filter), destroy(A).  fileset.c and my_fileset.c are compiled into this
 * translation unit (private state for the canonical hash; clock_gettime routed to a harness-owned clock). */
#include <time.h>
#include <sys/time.h>
#include <stdint.h>
#include <stdbool.h>
#include <stdio.h>
#include <stdlib.h>
#include <string.h>
#include <assert.h>
#ifndef VH_BLACKBOX      /* white-box view: private structures of the repository, used ONLY to identify states (fs_canon) */
static int vf_clock_gettime(clockid_t id, struct timespec *ts);
#define clock_gettime vf_clock_gettime
#include "libmy/my_fileset.c"
#include "fileset.c"
#undef clock_gettime
#else                    /* black-box build: fileset.c and my_fileset.c are compiled as library files with -Dclock_gettime=vf_clock_gettime */
int vf_clock_gettime(clockid_t id, struct timespec *ts);
#endif
#include "tbl.h"
#include "bfs.h"
#include <dirent.h>

#ifndef VH_BLACKBOX
size_t vm_merger_nsources(struct mtbl_merger *m);
const struct mtbl_source *vm_merger_source_at(struct mtbl_merger *m, size_t i);
#endif

/* ---- harness-owned monotonic clock ---- */
static int64_t clk_sec; static long clk_nsec;
#ifndef VH_BLACKBOX
static
#endif
int vf_clock_gettime(clockid_t id, struct timespec *ts) { (void) id; clk_nsec++; ts->tv_sec = clk_sec; ts->tv_nsec = clk_nsec; return 0; }

/* ---- world ---- */
static char g_dir[300];
#define NVER 8
/* files named by each setfile version (bit0=f1, bit1=f2, bit2=f3) and its literal text */
static const unsigned VMASK[NVER] = { 1, 3, 6, 4, 3, 1, 1, 4 };   /* version 5 lists f1 and f2, but f2 has been removed from disk before the setfile is written;
                                                                * version 6 names f1 twice (once relative, once absolute).  How often a file named twice contributes is not judged:
                                                                * once such a version is in the history, repeated entries of one file are accepted wherever one is expected */
#define VDUP 6
/* version 7 lists f3 and the file "junk" - and "junk", which version 3 lists as a file that is not a table, is replaced by a real table
 * (key m4) just before version 7 is written; it stays a table from then on.  Bit 3 of a mask = content of that fourth table. */
#define VJUNKTABLE 7
static bool g_junk_is_table;
static void setfile_text(int v, char *out, size_t n) {
	switch (v) {
	case 0: snprintf(out, n, "f1.mtbl\n"); break;
	case 1: snprintf(out, n, "f1.mtbl\nf2.mtbl\n"); break;
	case 2: snprintf(out, n, "f2.mtbl\nf3.mtbl\n"); break;
	case 3: snprintf(out, n, "f3.mtbl\nnope.mtbl\njunk\n"); break;
	case 4: snprintf(out, n, "%s/f1.mtbl\nf2.mtbl\n", g_dir); break;
	case 6: snprintf(out, n, "f1.mtbl\n%s/f1.mtbl\n", g_dir); break;
	case 7: snprintf(out, n, "f3.mtbl\njunk\n"); break;
	default: snprintf(out, n, "f1.mtbl\nf2.mtbl\n"); break;
	}
}
static void fold_merge(void *clos, const uint8_t *key, size_t kl, const uint8_t *v0, size_t l0, const uint8_t *v1, size_t l1, uint8_t **out, size_t *outl) {
	(void) clos; (void) key; (void) kl; *outl = l0 + l1 + 3; *out = malloc(*outl);
	(*out)[0] = '('; memcpy(*out + 1, v0, l0); (*out)[1 + l0] = '+'; memcpy(*out + 2 + l0, v1, l1); (*out)[2 + l0 + l1] = ')';
}
static void world_init(void) {
	snprintf(g_dir, sizeof g_dir, "%s/vfs.%d", access("/dev/shm", W_OK) == 0 ? "/dev/shm" : "/var/tmp", (int) getpid());
	mkdir(g_dir, 0700);
	char p[400];
	for (int i = 1; i <= 3; i++) {
		snprintf(p, sizeof p, "%s/f%d.mtbl", g_dir, i);
		struct mtbl_writer *w = mtbl_writer_init(p, NULL);
		char mk[3] = { 'm', (char) ('0' + i), 0 }, val[3] = { 'F', (char) ('0' + i), 0 };
		mtbl_writer_add(w, (uint8_t *) mk, 2, (uint8_t *) val, 2);
		mtbl_writer_add(w, (uint8_t *) "s", 1, (uint8_t *) val, 2);
		mtbl_writer_destroy(&w);
	}
	snprintf(p, sizeof p, "%s/junk", g_dir); FILE *f = fopen(p, "w"); fputs("this is not a table\n", f); fclose(f);
}
static void world_junk(bool table) {
	char p[400]; snprintf(p, sizeof p, "%s/junk", g_dir);
	if (table == g_junk_is_table) return;
	unlink(p);
	if (table) { struct mtbl_writer *w = mtbl_writer_init(p, NULL); mtbl_writer_add(w, (const uint8_t *) "m4", 2, (const uint8_t *) "F4", 2); mtbl_writer_add(w, (const uint8_t *) "s", 1, (const uint8_t *) "F4", 2); mtbl_writer_destroy(&w); }
	else { FILE *f = fopen(p, "w"); fputs("this is not a table\n", f); fclose(f); }
	g_junk_is_table = table;
}
static void make_table(int i) {
	char p[400]; snprintf(p, sizeof p, "%s/f%d.mtbl", g_dir, i);
	struct mtbl_writer *w = mtbl_writer_init(p, NULL); if (!w) return;      /* exists already */
	char mk[3] = { 'm', (char) ('0' + i), 0 }, val[3] = { 'F', (char) ('0' + i), 0 };
	mtbl_writer_add(w, (uint8_t *) mk, 2, (uint8_t *) val, 2); mtbl_writer_add(w, (uint8_t *) "s", 1, (uint8_t *) val, 2);
	mtbl_writer_destroy(&w);
}
static void world_done(void) {
	char cmd[400]; snprintf(cmd, sizeof cmd, "rm -rf '%s'", g_dir); if (system(cmd)) {}
}
static int g_setserial;
static void world_set(int v) {
	char p[400], t[400], txt[700]; snprintf(p, sizeof p, "%s/set", g_dir); snprintf(t, sizeof t, "%s/set.tmp", g_dir);
	setfile_text(v, txt, sizeof txt);
	/* version 5: the listed file f2 is gone from disk; every other version finds all three table files present */
	{ char f2[400]; snprintf(f2, sizeof f2, "%s/f2.mtbl", g_dir); if (v == 5) unlink(f2); else make_table(2); }
	if (v == VJUNKTABLE) world_junk(true);
	FILE *f = fopen(t, "w"); fputs(txt, f); fclose(f);
	g_setserial++;
	struct timespec ts[2] = { { 1000000 + g_setserial * 10, 0 }, { 1000000 + g_setserial * 10, 0 } };
	utimensat(AT_FDCWD, t, ts, 0);
	rename(t, p);                                  /* new inode and strictly newer mtime: distinct versions are distinguishable */
}

/* ---- configuration of one search ---- */
typedef struct { uint32_t ivA, ivB; int filtB; /* 0 none, 1 filename filter (rejects f2), 2 reader filter (rejects f3) */ bool merge; bool warm; } fcfg;
static fcfg CFG;
static bool name_filter(const char *fname, void *clos) { (void) clos; return strstr(fname, "f2.mtbl") == NULL; }
static bool reader_filter(struct mtbl_reader *r, void *clos) {
	(void) clos; struct mtbl_iter *it = mtbl_source_get(mtbl_reader_source(r), (const uint8_t *) "m3", 2);
	const uint8_t *k, *v; size_t kl, vl; bool has = it && mtbl_iter_next(it, &k, &kl, &v, &vl) == mtbl_res_success;
	mtbl_iter_destroy(&it); return !has;
}
static unsigned filt_mask(int h, unsigned m) { if (h == 1 && CFG.filtB == 1) m &= ~2u; if (h == 1 && CFG.filtB == 2) m &= ~4u; return m; }

/* ---- system under test + reference ---- */
#define MAXH 12
typedef struct {
	struct mtbl_fileset *fs[2]; bool alive[2];
	struct mtbl_iter *it[2]; unsigned it_mask[2]; int it_pos[2]; bool it_failed[2]; uint8_t it_lastk[2][4]; size_t it_lastn[2]; bool it_havelast[2];
	/* world */
	int hist[MAXH]; unsigned hmask[MAXH]; int nhist;  /* setfile versions in order and the tables each named when it was written; hist[nhist-1] is current */
	/* reference */
	bool cold; int j_lo; int j_U; int64_t U_sec; bool pinned; uint64_t pin_cands;
} fsys;
static fsys S;
static int n_open(void) { return (S.it[0] != NULL) + (S.it[1] != NULL); }

enum { OP_SET0 = 0, OP_TICK1 = 10, OP_TICK3, OP_TICK1Z, OP_TICK3Z, OP_RELOAD = 20, OP_RELOAD_NOW = 30, OP_OPEN = 40, OP_STEP = 50, OP_CLOSE = 60, OP_OBSERVE = 70, OP_DESTROY_A = 80, OP_DESTROY_B = 81, OP_SEEK = 90 };

static struct mtbl_fileset_options *mkopt(uint32_t iv, int filt) {
	struct mtbl_fileset_options *o = mtbl_fileset_options_init();
	mtbl_fileset_options_set_reload_interval(o, iv);
	if (CFG.merge) mtbl_fileset_options_set_merge_func(o, fold_merge, NULL);
	if (filt == 1) mtbl_fileset_options_set_filename_filter_func(o, name_filter, NULL);
	if (filt == 2) mtbl_fileset_options_set_reader_filter_func(o, reader_filter, NULL);
	return o;
}

/* has a version that names one file twice been written at any point of this history? */
static bool dup_lenient(void) { for (int j = 0; j < S.nhist; j++) if (S.hist[j] == VDUP) return true; return false; }
/* number of distinct keys an iterator returns (a key repeated because its file was named twice counts once when lenient) */
static int count_keys(struct mtbl_iter *it) {
	const uint8_t *k, *v; size_t kl, vl; int n = 0; uint8_t last[8]; size_t lastn = 0; bool have = false, len = dup_lenient();
	while (it && mtbl_iter_next(it, &k, &kl, &v, &vl) == mtbl_res_success) { if (!(len && have && kl == lastn && kl <= sizeof last && !memcmp(last, k, kl))) n++; if (kl <= sizeof last) { memcpy(last, k, kl); lastn = kl; have = true; } }
	return n;
}
/* decode what an iterator returns into a file mask; -1 if the content is not the merge of any file set */
static int drain_mask(struct mtbl_iter *it, int *count) {
	const uint8_t *k, *v; size_t kl, vl; unsigned mk = 0, sm = 0; int n = 0; char last[4] = ""; bool bad = false, len = dup_lenient();
	while (it && mtbl_iter_next(it, &k, &kl, &v, &vl) == mtbl_res_success) {
		n++;
		if (kl > 2 || (last[0] && vh_bscmp((uint8_t *) last, strlen(last), k, kl) > 0)) bad = true;
		if (!len && !CFG.merge && last[0] && strlen(last) == kl && !memcmp(last, k, kl) && kl != 1) bad = true;
		memcpy(last, k, kl); last[kl] = 0;
		if (kl == 2 && k[0] == 'm' && k[1] >= '1' && k[1] <= '4') {
			unsigned b = 1u << (k[1] - '1'); if ((mk & b) && !len) bad = true; mk |= b;
			bool plain = vl == 2 && v[0] == 'F' && v[1] == k[1];
			bool twice = len && CFG.merge && vl == 7 && v[0] == '(' && v[1] == 'F' && v[2] == k[1] && v[3] == '+' && v[4] == 'F' && v[5] == k[1] && v[6] == ')';
			if (!plain && !twice) bad = true;
		}
		else if (kl == 1 && k[0] == 's') { for (size_t i = 0; i + 1 < vl; i++) if (v[i] == 'F' && v[i + 1] >= '1' && v[i + 1] <= '4') { unsigned b = 1u << (v[i + 1] - '1'); if ((sm & b) && !len) bad = true; sm |= b; } if (!CFG.merge && vl != 2) bad = true; }
		else bad = true;
		if (n > 14) { bad = true; break; }
	}
	if (count) *count = n;
	if (bad || mk != sm) return -1;
	return (int) mk;
}
/* expected key sequence for a mask: m1 m2 m3 (present ones) then s (once with merge, once per file without) */
static int seq_len(unsigned mask) { int n = __builtin_popcount(mask); return n ? n + (CFG.merge ? 1 : n) : 0; }
static bool seq_check(unsigned mask, int pos, const uint8_t *k, size_t kl) {
	int nm = __builtin_popcount(mask);
	if (pos < nm) { int idx = 0; for (int b = 0; b < 4; b++) if (mask >> b & 1) { if (idx == pos) return kl == 2 && k[0] == 'm' && k[1] == '1' + b; idx++; } return false; }
	return kl == 1 && k[0] == 's';
}

static char why[300];
/* an observation of handle h yielded file mask `obs`: which setfile versions can the shared fileset have loaded? */
static bool observe_mask(int h, int obs) {
	if (obs < 0) { snprintf(why, sizeof why, "handle %c: content is not the merge of any set of files", 'A' + h); return false; }
	uint64_t J = 0;
	for (int j = S.j_lo; j <= S.j_U; j++) if (filt_mask(h, S.hmask[j]) == (unsigned) obs) J |= 1ull << j;
	if (S.pinned) J &= S.pin_cands;
	if (!J) {
		snprintf(why, sizeof why, "handle %c sees files mask %d; the setfile versions it may legitimately reflect are #%d..#%d of the history (masks", 'A' + h, obs, S.j_lo, S.j_U);
		size_t o = strlen(why); for (int j = S.j_lo; j <= S.j_U && o < sizeof why - 8; j++) o += snprintf(why + o, sizeof why - o, " %u", filt_mask(h, S.hmask[j]));
		snprintf(why + o, sizeof why - o, ")%s", S.pinned ? " and an open iterator pins the view" : "");
		return false;
	}
	if (S.pinned) S.pin_cands = J; else S.j_lo = __builtin_ctzll(J);
	return true;
}
/* bookkeeping before a call that attempts a reload on handle h (source operation: is_source) */
static void pre_reload_point(int h, bool is_source, bool is_now) {
	int jn = S.nhist - 1;
	if (n_open() > 0) return;                         /* no reload may happen; nothing becomes mandatory */
	uint32_t iv = h == 0 ? CFG.ivA : CFG.ivB;
	bool mandatory = false;
	/* nothing can have been loaded before the first moment a reload could happen: whatever is loaded later is at least this version */
	if (S.cold) mandatory = true;
	if (is_now) mandatory = true;
	if (is_source && iv != MTBL_FILESET_RELOAD_INTERVAL_NEVER && clk_sec - S.U_sec > (int64_t) iv) mandatory = true;
	/* a reload could happen now: the loaded version may be anything up to the current one */
	S.j_U = jn; S.U_sec = clk_sec;
	if (mandatory) { S.j_lo = jn; S.cold = false; }
}
static bool g_deferred_now;
static int g_np; static int g_pre[8];
static bool fs_step(void *ctx, int op);

static int fs_open_sys(void *ctx) {
	(void) ctx; memset(&S, 0, sizeof S);
	clk_sec = 1000; clk_nsec = 0; g_setserial = 0; g_deferred_now = false;
	world_junk(false);
	world_set(0); S.hist[0] = 0; S.hmask[0] = VMASK[0]; S.nhist = 1;
	char p[400]; snprintf(p, sizeof p, "%s/set", g_dir);
	struct mtbl_fileset_options *oa = mkopt(CFG.ivA, 0), *ob = mkopt(CFG.ivB, CFG.filtB);
	S.fs[0] = mtbl_fileset_init(p, oa); S.fs[1] = mtbl_fileset_dup(S.fs[0], ob);
	mtbl_fileset_options_destroy(&oa); mtbl_fileset_options_destroy(&ob);
	S.alive[0] = S.alive[1] = true;
	S.cold = true; S.j_lo = -1; S.j_U = -1; S.U_sec = clk_sec;
	/* the search may start below a fixed prefix (warm-up operations, first operation of this shard's subtree) */
	for (int i = 0; i < g_np; i++) if (!fs_step(NULL, g_pre[i])) { char keep[900]; snprintf(keep, sizeof keep, "%s", bfs_fail); snprintf(bfs_fail, sizeof bfs_fail, "in the prefix (op %d of %d): %s", i, g_np, keep); return -1; }
	return 0;
}
static void fs_close_sys(void *ctx) {
	(void) ctx;
	for (int h = 0; h < 2; h++) if (S.it[h]) mtbl_iter_destroy(&S.it[h]);
	for (int h = 1; h >= 0; h--) if (S.alive[h]) mtbl_fileset_destroy(&S.fs[h]);
}
static void after_close_point(int h) {
	/* closing an iterator lets the library attempt a reload (it calls mtbl_fileset_reload): a could-have moment when nothing is open */
	if (n_open() == 0) {
		if (S.pinned) { int lo = __builtin_ctzll(S.pin_cands); if (lo > S.j_lo) S.j_lo = lo; S.pinned = false; }
		bool now = g_deferred_now; g_deferred_now = false;
		(void) now;
		S.j_U = S.nhist - 1; S.U_sec = clk_sec;
		(void) h;
	}
}

static bool fs_step(void *ctx, int op) {
	(void) ctx;
	int kind = op / 10 * 10, h = op % 10;
	if (op < 10) { world_set(op); if (S.nhist < MAXH) { S.hist[S.nhist] = op; S.hmask[S.nhist] = VMASK[op] | ((op == 3 || op == VJUNKTABLE) && g_junk_is_table ? 8u : 0u); S.nhist++; } return true; }
	if (op == OP_TICK1) { clk_sec += 1; return true; }
	if (op == OP_TICK3) { clk_sec += 3; return true; }
	/* same steps, but the nanosecond part of the clock restarts below that of every earlier reading (sub-second borrow in elapsed-time arithmetic) */
	if (op == OP_TICK1Z) { clk_sec += 1; clk_nsec = 0; return true; }
	if (op == OP_TICK3Z) { clk_sec += 3; clk_nsec = 0; return true; }
	if (op == OP_DESTROY_A) { mtbl_fileset_destroy(&S.fs[0]); S.alive[0] = false; return true; }
	if (op == OP_DESTROY_B) { mtbl_fileset_destroy(&S.fs[1]); S.alive[1] = false; return true; }
	struct mtbl_fileset *f = S.fs[h];
	switch (kind) {
	case OP_RELOAD: pre_reload_point(h, false, false); mtbl_fileset_reload(f); return true;
	case OP_RELOAD_NOW:
		if (n_open() > 0) g_deferred_now = true;
		pre_reload_point(h, false, true); mtbl_fileset_reload_now(f); return true;
	case OP_OPEN: case OP_OBSERVE: {
		bool keep = kind == OP_OPEN;
		if (g_deferred_now && n_open() == 0) { g_deferred_now = false; pre_reload_point(h, true, true); } else pre_reload_point(h, true, false);
		const struct mtbl_source *src = mtbl_fileset_source(f);
		struct mtbl_iter *it = mtbl_source_iter(src);
		bool was_pinned = S.pinned;
		/* probe next to it: drained and closed while `it` keeps the view pinned */
		struct mtbl_iter *probe = mtbl_source_iter(src);
		int cnt; int obs = drain_mask(probe, &cnt);
		mtbl_iter_destroy(&probe);
		if (!was_pinned && n_open() == 0) { /* this open starts a pinned period */ }
		if (!observe_mask(h, obs)) { mtbl_iter_destroy(&it); snprintf(bfs_fail, sizeof bfs_fail, "%s", why); return false; }
		if (!S.pinned) { S.pinned = true; S.pin_cands = 0; for (int j = S.j_lo; j <= S.j_U; j++) if (filt_mask(h, S.hmask[j]) == (unsigned) obs) S.pin_cands |= 1ull << j; }
		/* lookups through the other source entry points must agree with the same view */
		{
			struct mtbl_iter *g = mtbl_source_get(src, (const uint8_t *) "s", 1); const uint8_t *k, *v; size_t kl, vl;
			bool has = g && mtbl_iter_next(g, &k, &kl, &v, &vl) == mtbl_res_success; mtbl_iter_destroy(&g);
			if (has != (obs != 0)) { mtbl_iter_destroy(&it); snprintf(bfs_fail, sizeof bfs_fail, "handle %c: get(s) %s but the view holds %d files", 'A' + h, has ? "succeeds" : "fails", __builtin_popcount(obs)); return false; }
			struct mtbl_iter *pf = mtbl_source_get_prefix(src, (const uint8_t *) "m", 1); int n = count_keys(pf); mtbl_iter_destroy(&pf);
			if (n != __builtin_popcount(obs)) { mtbl_iter_destroy(&it); snprintf(bfs_fail, sizeof bfs_fail, "handle %c: get_prefix(m) returns %d entries, the view holds %d files", 'A' + h, n, __builtin_popcount(obs)); return false; }
			struct mtbl_iter *rg = mtbl_source_get_range(src, (const uint8_t *) "m2", 2, (const uint8_t *) "m3", 2); n = count_keys(rg); mtbl_iter_destroy(&rg);
			if (n != __builtin_popcount(obs & 6)) { mtbl_iter_destroy(&it); snprintf(bfs_fail, sizeof bfs_fail, "handle %c: get_range(m2,m3) returns %d entries", 'A' + h, n); return false; }
		}
		if (keep) { S.it[h] = it; S.it_mask[h] = obs; S.it_pos[h] = 0; S.it_failed[h] = false; S.it_havelast[h] = false; }
		else { mtbl_iter_destroy(&it); after_close_point(h); }
		return true; }
	case OP_STEP: {
		const uint8_t *k, *v; size_t kl, vl;
		mtbl_res r = mtbl_iter_next(S.it[h], &k, &kl, &v, &vl);
		int len = seq_len(S.it_mask[h]);
		if (r == mtbl_res_success && !S.it_failed[h]) {
			bool normal = S.it_pos[h] < len && seq_check(S.it_mask[h], S.it_pos[h], k, kl);
			/* a key repeated because its file was named twice is accepted and does not advance the position */
			bool duprep = dup_lenient() && S.it_havelast[h] && kl == S.it_lastn[h] && !memcmp(k, S.it_lastk[h], kl);
			if (kl <= 4) { memcpy(S.it_lastk[h], k, kl); S.it_lastn[h] = kl; S.it_havelast[h] = true; }
			if (normal) { S.it_pos[h]++; return true; }
			if (duprep) return true;
		}
		if (S.it_pos[h] >= len || S.it_failed[h]) { S.it_failed[h] = true; if (r == mtbl_res_success) { snprintf(bfs_fail, sizeof bfs_fail, "iterator of handle %c returned key %s after the end of its snapshot", 'A' + h, vh_hex(k, kl)); return false; } return true; }
		if (r != mtbl_res_success) { snprintf(bfs_fail, sizeof bfs_fail, "iterator of handle %c failed at position %d of its %d-entry snapshot", 'A' + h, S.it_pos[h], len); return false; }
		snprintf(bfs_fail, sizeof bfs_fail, "iterator of handle %c returned key %s at position %d: not its snapshot (files mask %u)", 'A' + h, vh_hex(k, kl), S.it_pos[h], S.it_mask[h]); return false; }
	case OP_SEEK: {
		/* reposition a kept iterator at the first key >= "m2" of ITS snapshot (m-keys sort before "s") */
		mtbl_res r = mtbl_iter_seek(S.it[h], (const uint8_t *) "m2", 2);
		if (r != mtbl_res_success) { snprintf(bfs_fail, sizeof bfs_fail, "seek(m2) on the iterator of handle %c fails", 'A' + h); return false; }
		S.it_pos[h] = (int) (S.it_mask[h] & 1u); S.it_failed[h] = false; S.it_havelast[h] = false;
		return true; }
	case OP_CLOSE: mtbl_iter_destroy(&S.it[h]); after_close_point(h); return true;
	}
	return true;
}
static int fs_alphabet(void *ctx, int *ops, int max) {
	(void) ctx; (void) max; int n = 0;
	int curv = S.hist[S.nhist - 1];
	if (S.nhist < MAXH - 1) for (int v = 0; v < NVER; v++) if (v != curv) ops[n++] = v;
	ops[n++] = OP_TICK1; ops[n++] = OP_TICK3; ops[n++] = OP_TICK1Z; if (vh_thorough) ops[n++] = OP_TICK3Z;     /* quick tier: a thinner alphabet (no 3 s step with nanosecond reset, no seek on kept iterators, no destroy(B)) */
	for (int h = 0; h < 2; h++) if (S.alive[h]) {
		ops[n++] = OP_RELOAD + h; ops[n++] = OP_RELOAD_NOW + h; ops[n++] = OP_OBSERVE + h;
		if (!S.it[h]) ops[n++] = OP_OPEN + h; else { if (!S.it_failed[h]) ops[n++] = OP_STEP + h; if (vh_thorough && (S.it_pos[h] > 0 || S.it_failed[h])) ops[n++] = OP_SEEK + h; ops[n++] = OP_CLOSE + h; }
	}
	if (S.alive[0] && !S.it[0]) ops[n++] = OP_DESTROY_A;
	if (vh_thorough && S.alive[1] && !S.it[1] && S.alive[0]) ops[n++] = OP_DESTROY_B;
	return n;
}
static uint64_t fs_canon(void *ctx) {
	(void) ctx;
	uint64_t h = 11;
	/* world + reference */
	h = vh_mix(h, S.hist[S.nhist - 1]);
	/* the part of the history that the reference can still refer to: versions j_lo.. */
	for (int j = S.j_lo < 0 ? 0 : S.j_lo; j < S.nhist; j++) h = vh_mix(h, S.hist[j] + 1 + 16 * S.hmask[j]);
	h = vh_mix(h, g_junk_is_table);
	h = vh_mix(h, (uint64_t) (S.j_U - (S.j_lo < 0 ? 0 : S.j_lo) + 1) * 4 + S.cold * 2 + S.pinned);
	if (S.pinned) h = vh_mix(h, S.pin_cands >> (S.j_lo < 0 ? 0 : S.j_lo));
	int64_t age = clk_sec - S.U_sec; if (age > 4) age = 4; h = vh_mix(h, age + 100 * g_deferred_now);
	for (int k = 0; k < 2; k++) { h = vh_mix(h, S.alive[k] * 8 + (S.it[k] != NULL) * 4 + S.it_failed[k]); if (S.it[k]) { h = vh_mix(h, S.it_mask[k] * 16 + S.it_pos[k]); if (S.it_havelast[k]) h = vh_hash(S.it_lastk[k], S.it_lastn[k], h); } }
#ifndef VH_BLACKBOX
	/* implementation: shared fileset, my_fileset, per-handle stamps and merger contents */
	struct shared_fileset *sh = S.alive[0] ? S.fs[0]->shared_fs : S.alive[1] ? S.fs[1]->shared_fs : NULL;
	if (sh) {
		h = vh_mix(h, sh->n_iters * 4 + sh->reload_needed * 2 + 1);
		int64_t a2 = clk_sec - sh->fs_last.tv_sec; if (a2 > 4) a2 = 4; if (sh->fs_last.tv_sec == 0) a2 = 9; h = vh_mix(h, a2);
		h = vh_mix(h, clk_nsec < sh->fs_last.tv_nsec);
		struct my_fileset *m = sh->my_fs;
		h = vh_mix(h, m->last_mtime ? (uint64_t) (g_setserial - (m->last_mtime - 1000000) / 10) : 99);     /* how many setfile versions behind */
		for (size_t i = 0; i < entry_vec_size(m->entries); i++) { struct fileset_entry *e = entry_vec_value(m->entries, i); const char *b = strrchr(e->fname, '/'); h = vh_hash(b ? b : e->fname, strlen(b ? b : e->fname), h); h = vh_mix(h, e->ptr != NULL); }
		for (int k = 0; k < 2; k++) if (S.alive[k]) {
			struct mtbl_fileset *f = S.fs[k];
			h = vh_mix(h, (f->fs_last.tv_sec == sh->fs_last.tv_sec && f->fs_last.tv_nsec == sh->fs_last.tv_nsec) ? 1 : 2);
			/* which loaded readers the handle's merger points at */
			size_t ns = vm_merger_nsources(f->merger); h = vh_mix(h, ns);
			for (size_t i = 0; i < ns; i++) { const struct mtbl_source *s = vm_merger_source_at(f->merger, i); int which = -1; for (size_t q = 0; q < entry_vec_size(m->entries); q++) { struct fileset_entry *e = entry_vec_value(m->entries, q); if (e->ptr && mtbl_reader_source(e->ptr) == s) which = (int) q; } h = vh_mix(h, which + 2); }
		}
	}
#endif
	return h;
}
static const char *fs_explain(void *ctx, const int *ops, int nops) {
	(void) ctx; static char b[1200]; int o = 0;
	o += snprintf(b + o, sizeof b - o, "intervals A=%u B=%u filterB=%d merge=%d %s; ops:", CFG.ivA, CFG.ivB, CFG.filtB, CFG.merge, CFG.warm ? "warm" : "cold");
	for (int i = 0; i < nops && o < 1100; i++) {
		int op = ops[i], h = op % 10;
		if (op < 10) { static const char *vn[] = { "{f1}", "{f1,f2}", "{f2,f3}", "{f3,missing,junk}", "{/abs/f1,f2}", "{f1,f2 but f2 deleted from disk}", "{f1,/abs/f1: the same file named twice}", "{f3,junk} after junk has been replaced by a table" }; o += snprintf(b + o, sizeof b - o, " set%s", vn[op]); }
		else if (op == OP_TICK1) o += snprintf(b + o, sizeof b - o, " tick(1s)"); else if (op == OP_TICK3) o += snprintf(b + o, sizeof b - o, " tick(3s)"); else if (op == OP_TICK1Z) o += snprintf(b + o, sizeof b - o, " tick(1s,nsec:=0)"); else if (op == OP_TICK3Z) o += snprintf(b + o, sizeof b - o, " tick(3s,nsec:=0)");
		else if (op == OP_DESTROY_A) o += snprintf(b + o, sizeof b - o, " destroy(A)"); else if (op == OP_DESTROY_B) o += snprintf(b + o, sizeof b - o, " destroy(B)");
		else if (op / 10 * 10 == OP_SEEK) o += snprintf(b + o, sizeof b - o, " seek(%c,m2)", 'A' + h);
		else { static const char *kn[] = { "", "", "reload", "reload_now", "open", "step", "close", "observe" }; o += snprintf(b + o, sizeof b - o, " %s(%c)", kn[op / 10], 'A' + h); }
	}
	return b;
}
static bfs_sys BS;
static void render(char *b, size_t n, void *ctx) {
	(void) ctx; int o = snprintf(b, n, "F:%u:%u:%d:%d:%d:", CFG.ivA, CFG.ivB, CFG.filtB, CFG.merge, CFG.warm);
	for (int i = 0; i < g_np && o < (int) n - 8; i++) o += snprintf(b + o, n - o, "%d%s", g_pre[i], (i + 1 < g_np || BS.nops) ? "." : "");
	for (int i = 0; i < BS.nops && o < (int) n - 8; i++) o += snprintf(b + o, n - o, "%d%s", BS.ops[i], i + 1 < BS.nops ? "." : "");
}


int main(int argc, char **argv) {
	vh_init(argc, argv);
	world_init();
	BS = (bfs_sys) { .ctx = NULL, .open = fs_open_sys, .close = fs_close_sys, .step = fs_step, .canon = fs_canon, .alphabet = fs_alphabet, .explain = fs_explain, .state_cap = 400000, .viol_key = "fileset-view" };
	if (vh_case_arg) {
		int mg, wm, off = 0; const char *s = vh_case_arg;
		if (sscanf(s, "F:%u:%u:%d:%d:%d:%n", &CFG.ivA, &CFG.ivB, &CFG.filtB, &mg, &wm, &off) < 5) return 2;
		CFG.merge = mg; CFG.warm = wm; s += off;
		int ops[BFS_MAXD + 2], n = 0;
		while (*s && n < BFS_MAXD) { int v, o2; if (sscanf(s, "%d%n", &v, &o2) < 1) break; ops[n++] = v; s += o2; if (*s == '.') s++; }
		vh_case_begin(render, NULL);
		fprintf(stderr, "replay: %s\n", fs_explain(NULL, ops, n));
		bfs_replay(&BS, ops, n, NULL);
		vh_case_end();
		world_done();
		return vh_finish();
	}
	int depth_lo = atoi(vh_arg(0, "5")), depth_hi = atoi(vh_arg(1, vh_arg(0, "5")));   /* iterative deepening: every depth is completed for all subtrees before the next one starts */
	static const fcfg CF[] = {
		{ 2, 2, 1, true, false }, { 2, 2, 1, true, true }, { 0, MTBL_FILESET_RELOAD_INTERVAL_NEVER, 1, true, false }, { MTBL_FILESET_RELOAD_INTERVAL_NEVER, 2, 2, true, true },
		{ 2, 0, 0, false, false }, { 2, 2, 2, false, true }, { MTBL_FILESET_RELOAD_INTERVAL_NEVER, MTBL_FILESET_RELOAD_INTERVAL_NEVER, 1, true, true }, { 0, 0, 0, true, false },
	};
	int ncf = vh_thorough ? 8 : 4;
	/* one configuration per group of shards: the BFS itself is sequential; shards take different configurations and initial prefixes */
	for (int depth = depth_lo; depth <= depth_hi; depth++) {
	uint64_t idx = 0; bool complete = true;
	for (int ci = 0; ci < ncf; ci++) {
		/* split each configuration's search by its first operation so that several shards share one configuration */
		CFG = CF[ci];
		g_np = 0; if (CFG.warm) { g_pre[g_np++] = OP_OBSERVE + 0; g_pre[g_np++] = OP_OBSERVE + 1; }
		if (fs_open_sys(NULL)) { printf("@error \"fileset: warm-up prefix fails: %s\"\n", bfs_fail); }
		int first[64]; int nf = fs_alphabet(NULL, first, 64); fs_close_sys(NULL);
		for (int fi = 0; fi < nf; fi++) {
			if (!vh_mine(idx++)) continue;
			if (vh_time_up() || vh_too_many()) { complete = false; goto done; }
			/* search the subtree below `first[fi]` (and, when warm, below the warm-up prefix) */
			int pre[8], np = 0;
			if (CFG.warm) { pre[np++] = OP_OBSERVE + 0; pre[np++] = OP_OBSERVE + 1; }
			pre[np++] = first[fi];
			vh_case_begin(render, NULL);
			/* run the BFS from the state reached by the prefix: implemented by a wrapper system whose open() replays the prefix */
			g_np = np; memcpy(g_pre, pre, sizeof(int) * np);
			BS.depth_cap = depth - 1;
			BS.nops = 0;
			bfs_run(&BS);
			vh_case_end();
			vh_sig(vh_mix(vh_mix(ci, first[fi]), depth));
			if (vh_incomplete) complete = false;
		}
	}
	if (complete) vh_max("max_depth_completed_by_this_shard", depth);
	}
done:
	world_done();
	if (vh_shard == 0) vh_sample("intervals A=2 B=2 filterB=1 merge=1 warm; ops: set{f1,f2} reload_now(A) reload_now(B) observe(B)");
	return vh_finish();
}
