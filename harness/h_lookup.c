/* C02: exact / prefix / range lookups on a reader return exactly the matching entries. */
#include "tbl.h"

#define MAXQ 400
typedef struct { uint8_t b[8]; size_t n; } qkey;
static qkey Q[MAXQ]; static int nQ;
static void q_add(const uint8_t *p, size_t n) {
	if (n > 8 || nQ >= MAXQ) return;
	for (int i = 0; i < nQ; i++) if (Q[i].n == n && !memcmp(Q[i].b, p, n)) return;
	memcpy(Q[nQ].b, p, n); Q[nQ].n = n; nQ++;
}
static void q_neighbours(const uint8_t *k, size_t n) {
	uint8_t t[10];
	if (n > 6) return;
	q_add(k, n);
	for (size_t l = 0; l < n; l++) q_add(k, l);                       /* proper prefixes */
	memcpy(t, k, n); t[n] = 0x00; q_add(t, n + 1);                     /* immediate successor */
	t[n] = 0xff; q_add(t, n + 1); t[n] = 0x80; q_add(t, n + 1);
	if (n) {
		memcpy(t, k, n);
		if (t[n - 1] > 0) { t[n - 1]--; q_add(t, n); t[n] = 0xff; q_add(t, n + 1); }   /* just below */
		memcpy(t, k, n);
		if (t[n - 1] < 0xff) { t[n - 1]++; q_add(t, n); }                                /* just above */
	}
}

typedef struct { tcfg cfg; int n; int key[6]; int vs[6]; char src; int ul; } lcase;
static u5key U[400]; static size_t nU;
static size_t gen_universe(int ul) { return ul == 16 ? u16_gen(U) : u5_gen(U, ul); }
static const size_t VSZ[4] = { 1, 600, 0, 1100 };
static void render(char *b, size_t n, void *ctx) {
	lcase *c = ctx; int o = snprintf(b, n, "Q:%d:%zu:%zu:%d:", c->cfg.comp, c->cfg.restart, c->cfg.prefix, c->ul);
	for (int i = 0; i < c->n; i++) o += snprintf(b + o, n - o, "%d.%d,", c->key[i], c->vs[i]);
}
static char g_what[256];
static void render2(char *b, size_t n, void *ctx) { render(b, n, ctx); size_t l = strlen(b); snprintf(b + l, n - l, " %s", g_what); }

static uint64_t n_lookups;
static void check_iter(lcase *c, struct mtbl_iter *it, const tkv *want, size_t nw, const char *what) {
	const char *w = tbl_drain_cmp(it, want, nw);
	if (w) { snprintf(g_what, sizeof g_what, "%s", what); vh_cur_render = render2; vh_violation(what[0] == 'g' && what[3] == '(' ? "get" : what[4] == 'p' ? "get_prefix" : "get_range", "%s: %s", what, w); vh_cur_render = render; }
	mtbl_iter_destroy(&it);
	n_lookups++;
	(void) c;
}

static void run(lcase *c) {
	vh_case_begin(render, c);
	tkv e[6];
	for (int i = 0; i < c->n; i++) { e[i].k = U[c->key[i]].b; e[i].kl = U[c->key[i]].n; e[i].vl = VSZ[c->vs[i]]; e[i].v = tbl_val(i + 1, e[i].vl); }
	c->cfg.block_size = 1024;
	int fd = tbl_write(&c->cfg, e, c->n, NULL);
	size_t flen; uint8_t *bytes = tbl_slurp(fd, &flen);
	ic_file f; int dr = ic_decode(bytes, flen, &f);
	struct mtbl_reader *r = mtbl_reader_init_fd(fd, NULL);
	if (!r || dr) { vh_violation("noreader", "cannot open the written table (%s)", dr ? f.err : "reader NULL"); goto out; }
	const struct mtbl_source *s = mtbl_reader_source(r);
	/* query set: the whole small universe + neighbours of stored keys and of index separators */
	nQ = 0;
	if (c->ul != 16) for (size_t i = 0; i < (nU < 31 ? nU : 31); i++) q_add(U[i].b, U[i].n);
	for (int i = 0; i < c->n; i++) q_neighbours(e[i].k, e[i].kl);
	uint64_t sig = vh_mix(c->cfg.restart, f.nblocks);
	for (size_t b = 0; b < f.nblocks; b++) {
		q_neighbours(f.index.e[b].key, f.index.e[b].klen);
		const ic_ent *last = &f.blocks[b].e[f.blocks[b].n - 1];
		/* separator case signature: same / shortened-inc / other */
		int sc = ic_cmp(last->key, last->klen, f.index.e[b].key, f.index.e[b].klen) == 0 ? 0 : (f.index.e[b].klen < last->klen ? 1 : (f.index.e[b].klen == last->klen ? 2 : 3));
		sig = vh_mix(sig, sc); if (sc) VH_COUNT("shortened_separators", 1);
	}
	vh_sig(sig);
	if (f.nblocks > 1) VH_COUNT("multi_block_tables", 1);
	char what[200];
	for (int qi = 0; qi < nQ; qi++) {
		const uint8_t *q = Q[qi].b; size_t ql = Q[qi].n;
		tkv want[6]; size_t nw = 0;
		for (int i = 0; i < c->n; i++) if (vh_bscmp(e[i].k, e[i].kl, q, ql) == 0) want[nw++] = e[i];
		snprintf(what, sizeof what, "get(%s)", vh_hex(q, ql));
		check_iter(c, mtbl_source_get(s, q, ql), want, nw, what);
		nw = 0; for (int i = 0; i < c->n; i++) if (vh_has_prefix(e[i].k, e[i].kl, q, ql)) want[nw++] = e[i];
		snprintf(what, sizeof what, "get_prefix(%s)", vh_hex(q, ql));
		check_iter(c, mtbl_source_get_prefix(s, q, ql), want, nw, what);
	}
	/* ranges over a reduced query set: stored keys, separators and their neighbours (everything after the universe part) + a few universe keys */
	int r0 = c->ul == 16 ? 0 : (int) (nU < 31 ? nU : 31); if (nQ - r0 > 26) r0 = nQ - 26;
	int start = r0 > 4 ? r0 - 4 : 0;
	for (int a = start; a < nQ; a++) for (int b = start; b < nQ; b++) {
		tkv want[6]; size_t nw = 0;
		for (int i = 0; i < c->n; i++) if (vh_bscmp(e[i].k, e[i].kl, Q[a].b, Q[a].n) >= 0 && vh_bscmp(e[i].k, e[i].kl, Q[b].b, Q[b].n) <= 0) want[nw++] = e[i];
		snprintf(what, sizeof what, "get_range(%s,%s)", vh_hex(Q[a].b, Q[a].n), vh_hex(Q[b].b, Q[b].n));
		check_iter(c, mtbl_source_get_range(s, Q[a].b, Q[a].n, Q[b].b, Q[b].n), want, nw, what);
	}
	mtbl_reader_destroy(&r);
out:
	if (!dr) ic_free(&f);
	for (int i = 0; i < c->n; i++) free((void *) e[i].v);
	free(bytes); close(fd);
	VH_COUNT("cases", 1);
	vh_case_end();
}

int main(int argc, char **argv) {
	vh_init(argc, argv);
	lcase c; memset(&c, 0, sizeof c);
	if (vh_case_arg) {
		int off = 0; const char *s = vh_case_arg;
		if (sscanf(s, "Q:%d:%zu:%zu:%d:%n", &c.cfg.comp, &c.cfg.restart, &c.cfg.prefix, &c.ul, &off) < 4) return 2;
		nU = gen_universe(c.ul);
		s += off; c.n = 0;
		while (*s && *s != ' ' && c.n < 6) { int k, v, o2 = 0; if (sscanf(s, "%d.%d,%n", &k, &v, &o2) < 2) break; c.key[c.n] = k; c.vs[c.n] = v; c.n++; s += o2; }
		run(&c); vh_count("transitions", n_lookups); return vh_finish();
	}
	const char *mode = vh_arg(0, "sep");
	uint64_t idx = 0;
	if (!strcmp(mode, "sep")) {
		/* separator sweep: all ordered pairs of the universe with the block cut exactly between them */
		c.ul = vh_thorough ? 3 : 2; nU = u5_gen(U, c.ul);
		for (size_t i = 0; i < nU; i++) for (size_t j = i + 1; j < nU; j++) {
			if (!vh_mine(idx++)) continue;
			if (vh_time_up()) goto done;
			for (int cf = 0; cf < 4; cf++) {
				c.cfg.comp = cf & 1 ? 3 : 0; c.cfg.restart = cf & 2 ? 1 : 16; c.cfg.prefix = cf == 3 ? 13 : 0;
				static const int VV[5][2] = { {0, 0}, {1, 1}, {0, 3}, {1, 0}, {2, 2} };   /* sizes {1,1} {600,600} {1,1100} {600,1} {0,0} */
				c.n = 2; c.key[0] = (int) i; c.key[1] = (int) j;
				for (int v = 0; v < 5; v++) { c.vs[0] = VV[v][0]; c.vs[1] = VV[v][1]; run(&c); }
			}
			if (vh_too_many()) goto done;
		}
	} else if (!strcmp(mode, "sep16")) {
		/* every ordered pair of the 320-key universe whose first differing bytes are adjacent values or equal-prefix related, cut between them */
		c.ul = 16; nU = gen_universe(16);
		for (size_t i = 0; i < nU; i++) for (size_t j = i + 1; j < nU; j++) {
			size_t d = 0; while (d < U[i].n && d < U[j].n && U[i].b[d] == U[j].b[d]) d++;
			if (d < U[i].n && d < U[j].n && U[j].b[d] > U[i].b[d] + 1) continue;          /* plain one-byte increment: covered by the other sweeps */
			if (!vh_mine(idx++)) continue;
			if (vh_time_up()) goto done;
			for (int cf = 0; cf < 2; cf++) { c.cfg.comp = 0; c.cfg.restart = cf ? 1 : 16; c.cfg.prefix = 0; c.n = 2; c.key[0] = (int) i; c.key[1] = (int) j; c.vs[0] = 1; c.vs[1] = 1; run(&c); }
			if (vh_too_many()) goto done;
		}
	} else if (!strcmp(mode, "sets")) {
		/* all 3-subsets (thorough: 4-subsets) of the 31-key universe x all value-size vectors over {1,600} */
		c.ul = 2; nU = u5_gen(U, 2);
		int k = vh_thorough ? 4 : 3;
		int ix[4];
		for (ix[0] = 0; ix[0] < (int) nU; ix[0]++) for (ix[1] = ix[0] + 1; ix[1] < (int) nU; ix[1]++) for (ix[2] = ix[1] + 1; ix[2] < (int) nU; ix[2]++)
		for (ix[3] = (k == 4 ? ix[2] + 1 : 0); ix[3] < (k == 4 ? (int) nU : 1); ix[3]++) {
			if (!vh_mine(idx++)) continue;
			if (vh_time_up()) goto done;
			c.n = k; for (int i = 0; i < k; i++) c.key[i] = ix[i];
			for (unsigned vm = 0; vm < (1u << k); vm++) {
				for (int i = 0; i < k; i++) c.vs[i] = vm >> i & 1;
				c.cfg.comp = 0; c.cfg.restart = (vm & 1) ? 1 : 16; c.cfg.prefix = 0;
				run(&c);
			}
			if (vh_too_many()) goto done;
		}
	} else if (!strcmp(mode, "k9")) {
		/* the C01 structure sweep tables (K9 mapped into the universe), compression none and lz4, depth <= 4, values {0,1,600} */
		c.ul = 2; nU = u5_gen(U, 2);
		int map[9];
		for (int i = 0; i < 9; i++) { map[i] = -1; for (size_t j = 0; j < nU; j++) if (U[j].n == TBL_K9[i].n && !memcmp(U[j].b, TBL_K9[i].b, U[j].n)) map[i] = (int) j; }
		for (unsigned mask = 0; mask < 512; mask++) {
			int n = __builtin_popcount(mask); if (n > 4 || n == 0) continue;
			if (!vh_mine(idx++)) continue;
			if (vh_time_up()) goto done;
			unsigned nv = 1; for (int i = 0; i < n; i++) nv *= 3;
			for (unsigned vc = 0; vc < nv; vc++) for (int cf = 0; cf < 4; cf++) {
				c.n = 0; unsigned v = vc;
				for (int i = 0; i < 9; i++) if (mask >> i & 1) { static const int vsmap[3] = { 2, 0, 1 }; c.key[c.n] = map[i]; c.vs[c.n] = vsmap[v % 3]; v /= 3; c.n++; }
				c.cfg.comp = cf & 1 ? 3 : 0; c.cfg.restart = cf & 2 ? 2 : 16; c.cfg.prefix = cf == 3 ? 13 : 0;
				run(&c);
			}
		}
	}
done:
	vh_count("transitions", n_lookups);
	if (vh_shard == 0) { vh_sample("table {00->1B, 0001->1100B} cut between them; get/get_prefix on every string of len<=2 over {00,01,7f,80,ff} + neighbours; get_range on all ordered and reversed pairs of stored keys/separators +- neighbours"); }
	return vh_finish();
}
