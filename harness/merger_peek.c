/* merger_peek.c -- compiles the repository's merger.c into this translation unit and exposes which sources a merger holds
 * (needed by harnesses that cannot include merger.c themselves because of clashing private type names). */
#include "merger.c"
size_t vm_merger_nsources(struct mtbl_merger *m);
const struct mtbl_source *vm_merger_source_at(struct mtbl_merger *m, size_t i);
size_t vm_merger_nsources(struct mtbl_merger *m) { return source_vec_size(m->sources); }
const struct mtbl_source *vm_merger_source_at(struct mtbl_merger *m, size_t i) { return source_vec_value(m->sources, i); }
