/* C04 + C05: the merger.
 *   mode "drain":  C04 -- full iteration of a merger over every family of small sources, fold-tree merge function
 *   mode "fail":   C04 -- merge callback that fails for one key
 *   mode "bfs":    C05 -- explicit-state search over the real merger_iter (iter / get / get_prefix / get_range kinds)
 *   mode "tree":   C05 -- all histories up to a depth, no deduplication
 *   mode "lookup": C05 -- one-shot get/get_prefix/get_range drains against the reference table */
#ifndef VH_BLACKBOX      /* white-box view: private structures of the repository, used ONLY to identify states (ms_canon) */
#include "iter.c"
#include "block.c"
#include "reader.c"
#include "merger.c"
#endif
#include "tbl.h"
#ifndef VH_BLACKBOX
#include "canon_reader.h"
#include "libmy/heap.h"
#endif
#include "bfs.h"

/* ------------------------------------------------------------ universe, sources */
#define NU 4
static const struct { uint8_t b[2]; size_t n; } UK[NU] = { { {0}, 0 }, { {'a'}, 1 }, { {'b'}, 1 }, { {'c'}, 1 } };
#define MAXSRC 4
typedef struct {
	int k;                      /* number of sources */
	int mask[MAXSRC];           /* which universe keys each source holds */
	char kind[MAXSRC];          /* 'r' reader one block, 'm' reader one entry per block, 'u' invalidating user source */
	bool merge, dupsort;
	int failkey;                /* -1 or universe index whose merge fails */
	int failnth;                /* fail on the n-th callback invocation for that key (1-based) */
	int mstyle;                 /* merge function: 0 = fold tree "(a+b)", 1 = shrinking sum (values are unary counts or "#<n>") */
	int failstyle;              /* how the callback reports failure: 0 = stores NULL into *merged_val, 1 = returns without touching its out-parameters */
} family;

/* source values: unique tags "s<src>k<key>" padded with dots for multi-block sources */
/* An entry is identified by e = 2*source + d; d = 1 only exists in sources of kind 'd' (a user source that holds every key twice).
 * Fold style: unique tags "k<key><letter>s<src>" (letter z/a for the two duplicates of a 'd' source, m otherwise),
 * padded with dots for multi-block sources. Sum style: unary counts of length 2^(2*src+1-d): distinct powers of two. */
static int g_mstyle;
static int nd_of(const family *F, int s) { return F->kind[s] == 'd' ? 2 : 1; }
static size_t src_val(const family *F, int e, int ki, uint8_t *out) {
	int s = e / 2, d = e % 2;
	if (F->mstyle == 2 && s == 0 && d == 0) return 0;      /* style 2: the first source's values are zero-length ("nothing buffered" and "an empty value buffered" must not be confused; seed R7-C05) */
	if (F->mstyle == 1) { size_t n = (size_t) 1 << (2 * s + 1 - d); memset(out, 'x', n); if (F->kind[s] == 'm') { /* multi-block: keep entries apart with a long value */ } return n; }
	/* the letter decides the dupsort order before the source number does: the two duplicates of a 'd' source (z, a) enclose the values
	 * of ordinary sources (m), so that equal keys from different sources interleave under dupsort */
	size_t n = sprintf((char *) out, "k%d%cs%d", ki, F->kind[s] == 'd' ? (d ? 'a' : 'z') : 'm', s);
	if (F->kind[s] == 'm') { memset(out + n, '.', 600); n += 600; }
	return n;
}
static uint64_t sum_parse(const uint8_t *v, size_t l) { if (l && v[0] == '#') { uint64_t n = 0; for (size_t i = 1; i < l; i++) n = n * 10 + (v[i] - '0'); return n; } return l; }

/* ---- invalidating user source ---- */
typedef struct { int n; int ki[2 * NU]; uint8_t *v[2 * NU]; size_t vl[2 * NU]; } usrc;
typedef struct { usrc *s; int pos; int kind; uint8_t bk[2][4]; size_t bl[2]; uint8_t *lastk, *lastv; bool dead; } uit;
static void uit_drop(uit *x) { free(x->lastk); free(x->lastv); x->lastk = x->lastv = NULL; }
static mtbl_res uit_next(void *v, const uint8_t **k, size_t *kl, const uint8_t **val, size_t *vl) {
	uit *x = v; uit_drop(x);
	if (x->dead || x->pos >= x->s->n) { x->dead = true; return mtbl_res_failure; }
	int ki = x->s->ki[x->pos];
	const uint8_t *key = UK[ki].b; size_t keyl = UK[ki].n;
	bool ok = true;
	if (x->kind == 1) ok = vh_bscmp(key, keyl, x->bk[0], x->bl[0]) == 0;
	else if (x->kind == 2) ok = vh_has_prefix(key, keyl, x->bk[0], x->bl[0]);
	else if (x->kind == 3) ok = vh_bscmp(key, keyl, x->bk[1], x->bl[1]) <= 0;
	if (!ok) { x->dead = true; return mtbl_res_failure; }
	x->lastk = malloc(keyl); memcpy(x->lastk, key, keyl);              /* exact-size: stale use is an ASan report */
	x->lastv = malloc(x->s->vl[x->pos]); memcpy(x->lastv, x->s->v[x->pos], x->s->vl[x->pos]);
	*k = x->lastk; *kl = keyl; *val = x->lastv; *vl = x->s->vl[x->pos];
	x->pos++;
	return mtbl_res_success;
}
static mtbl_res uit_seek(void *v, const uint8_t *k, size_t kl) {
	uit *x = v; uit_drop(x);
	int p = 0; while (p < x->s->n && vh_bscmp(UK[x->s->ki[p]].b, UK[x->s->ki[p]].n, k, kl) < 0) p++;
	x->pos = p; x->dead = false;
	return mtbl_res_success;
}
static void uit_free(void *v) { uit *x = v; uit_drop(x); free(x); }
static struct mtbl_iter *uit_make(usrc *s, int kind, const uint8_t *a, size_t al, const uint8_t *b, size_t bl) {
	uit *x = calloc(1, sizeof *x); x->s = s; x->kind = kind;
	if (a) { memcpy(x->bk[0], a, al); x->bl[0] = al; uit_seek(x, a, al); }
	if (b) { memcpy(x->bk[1], b, bl); x->bl[1] = bl; }
	return mtbl_iter_init(uit_seek, uit_next, uit_free, x);
}
static struct mtbl_iter *us_iter(void *c) { return uit_make(c, 0, NULL, 0, NULL, 0); }
static struct mtbl_iter *us_get(void *c, const uint8_t *k, size_t kl) { return uit_make(c, 1, k, kl, NULL, 0); }
static struct mtbl_iter *us_prefix(void *c, const uint8_t *k, size_t kl) { return uit_make(c, 2, k, kl, NULL, 0); }
static struct mtbl_iter *us_range(void *c, const uint8_t *a, size_t al, const uint8_t *b, size_t bl) { return uit_make(c, 3, a, al, b, bl); }

/* ---- merge / dupsort callbacks ---- */
static int g_merge_calls, g_failkey = -1, g_failnth, g_failstyle, g_calls_for_key[NU];
static void fold_merge(void *clos, const uint8_t *key, size_t kl, const uint8_t *v0, size_t l0, const uint8_t *v1, size_t l1, uint8_t **out, size_t *outl) {
	(void) clos; g_merge_calls++;
	int ki = -1; for (int i = 0; i < NU; i++) if (UK[i].n == kl && !memcmp(UK[i].b, key, kl)) ki = i;
	if (ki >= 0) { g_calls_for_key[ki]++; if (ki == g_failkey && g_calls_for_key[ki] == g_failnth) { if (g_failstyle == 0) { *out = NULL; *outl = 0; } return; } }
	if (g_mstyle == 1) { char b[32]; int n = snprintf(b, sizeof b, "#%llu", (unsigned long long) (sum_parse(v0, l0) + sum_parse(v1, l1))); *out = malloc(n); memcpy(*out, b, n); *outl = n; return; }
	*outl = l0 + l1 + 3; *out = malloc(*outl);
	(*out)[0] = '('; memcpy(*out + 1, v0, l0); (*out)[1 + l0] = '+'; memcpy(*out + 2 + l0, v1, l1); (*out)[2 + l0 + l1] = ')';
}
static int rev_dupsort(void *clos, const uint8_t *key, size_t kl, const uint8_t *v0, size_t l0, const uint8_t *v1, size_t l1) {
	(void) clos; (void) key; (void) kl; return -vh_bscmp(v0, l0, v1, l1);    /* descending by value */
}

/* ------------------------------------------------------------ system under test */
enum { K_ITER, K_GET, K_PREFIX, K_RANGE };
#define NT 10
static const struct { uint8_t b[3]; size_t n; } TG[NT] = {
	{ {0}, 0 }, { {0x00}, 1 }, { {0x60, 0xff}, 2 }, { {'a'}, 1 }, { {'a', 0}, 2 }, { {'b'}, 1 }, { {'b', 0}, 2 }, { {'c'}, 1 }, { {'c', 0}, 2 }, { {'d'}, 1 } };
typedef struct { int kind; int a, b; } ispec;

typedef struct {
	family F; ispec sp;
	/* live objects */
	int fd[MAXSRC]; struct mtbl_reader *rd[MAXSRC]; usrc us[MAXSRC]; struct mtbl_source *usrc_src[MAXSRC];
	struct mtbl_merger *m; struct mtbl_iter *it;
	/* reference position */
	int ki; unsigned used; bool failed; bool dead;   /* dead: a merge failure happened; the statement fixes nothing after it */
	bool have_last; const uint8_t *lk, *lv; size_t lkl, lvl; uint8_t *ck, *cv;
	/* prebuilt table images per source (built once per family) */
	uint8_t *img[MAXSRC]; size_t imglen[MAXSRC]; int imgfd[MAXSRC];
} msys;

static void family_images(msys *S) {
	family *F = &S->F;
	for (int s = 0; s < F->k; s++) {
		S->img[s] = NULL;
		if (F->kind[s] == 'u' || F->kind[s] == 'd') continue;
		tkv e[NU]; size_t n = 0; uint8_t vb[NU][700];
		for (int i = 0; i < NU; i++) if (F->mask[s] >> i & 1) { e[n].k = UK[i].b; e[n].kl = UK[i].n; e[n].vl = src_val(F, 2 * s, i, vb[n]); e[n].v = vb[n]; n++; }
		tcfg cfg = { 0 }; cfg.comp = s & 1 ? 3 : 0; cfg.block_size = 1024; cfg.restart = 2;
		int fd = tbl_write(&cfg, e, n, NULL);
		S->img[s] = tbl_slurp(fd, &S->imglen[s]); S->imgfd[s] = fd;
	}
}
static void family_images_free(msys *S) { for (int s = 0; s < S->F.k; s++) { if (S->img[s]) close(S->imgfd[s]); free(S->img[s]); } }

static unsigned srcs_with(const family *F, int ki) { unsigned m = 0; for (int s = 0; s < F->k; s++) if (F->mask[s] >> ki & 1) for (int d = 0; d < nd_of(F, s); d++) m |= 1u << (2 * s + d); return m; }   /* mask over entries e = 2*source+d */
static bool key_in_bound(const ispec *sp, int ki) {
	const uint8_t *k = UK[ki].b; size_t kl = UK[ki].n;
	switch (sp->kind) {
	case K_ITER: return true;
	case K_GET: return vh_bscmp(k, kl, TG[sp->a].b, TG[sp->a].n) == 0;
	case K_PREFIX: return vh_has_prefix(k, kl, TG[sp->a].b, TG[sp->a].n);
	default: return vh_bscmp(k, kl, TG[sp->b].b, TG[sp->b].n) <= 0;
	}
}
static int lb_key(const uint8_t *k, size_t kl) { int i = 0; while (i < NU && vh_bscmp(UK[i].b, UK[i].n, k, kl) < 0) i++; return i; }

static int ms_open(void *ctx) {
	msys *S = ctx; family *F = &S->F;
	g_merge_calls = 0; memset(g_calls_for_key, 0, sizeof g_calls_for_key); g_failkey = F->failkey; g_failnth = F->failnth; g_failstyle = F->failstyle; g_mstyle = F->mstyle;
	struct mtbl_merger_options *mo = mtbl_merger_options_init();
	if (F->merge) mtbl_merger_options_set_merge_func(mo, fold_merge, NULL);
	if (F->dupsort) mtbl_merger_options_set_dupsort_func(mo, rev_dupsort, NULL);
	S->m = mtbl_merger_init(mo); mtbl_merger_options_destroy(&mo);
	for (int s = 0; s < F->k; s++) {
		S->rd[s] = NULL; S->usrc_src[s] = NULL; S->fd[s] = -1;
		if (F->kind[s] == 'u' || F->kind[s] == 'd') {
			usrc *u = &S->us[s]; u->n = 0;
			for (int i = 0; i < NU; i++) if (F->mask[s] >> i & 1) for (int d = 0; d < nd_of(F, s); d++) { uint8_t vb[700]; size_t vl = src_val(F, 2 * s + d, i, vb); u->ki[u->n] = i; u->v[u->n] = malloc(vl); memcpy(u->v[u->n], vb, vl); u->vl[u->n] = vl; u->n++; }
			S->usrc_src[s] = mtbl_source_init(us_iter, us_get, us_prefix, us_range, NULL, u);
			mtbl_merger_add_source(S->m, S->usrc_src[s]);
		} else {
			S->rd[s] = mtbl_reader_init_fd(S->imgfd[s], NULL);
			if (!S->rd[s]) { snprintf(bfs_fail, sizeof bfs_fail, "source table %d does not open", s); return -1; }
			mtbl_merger_add_source(S->m, mtbl_reader_source(S->rd[s]));
		}
	}
	const struct mtbl_source *src = mtbl_merger_source(S->m);
	const uint8_t *a = TG[S->sp.a].b; size_t al = TG[S->sp.a].n; const uint8_t *b = TG[S->sp.b].b; size_t bl = TG[S->sp.b].n;
	uint8_t *ca = malloc(al + 1), *cb = malloc(bl + 1); memcpy(ca, a, al); memcpy(cb, b, bl);
	switch (S->sp.kind) {
	case K_ITER: S->it = mtbl_source_iter(src); S->ki = 0; break;
	case K_GET: S->it = mtbl_source_get(src, ca, al); S->ki = lb_key(a, al); break;
	case K_PREFIX: S->it = mtbl_source_get_prefix(src, ca, al); S->ki = lb_key(a, al); break;
	default: S->it = mtbl_source_get_range(src, ca, al, cb, bl); S->ki = lb_key(a, al); break;
	}
	free(ca); free(cb);
	S->used = 0; S->failed = false; S->dead = false; S->have_last = false; S->ck = S->cv = NULL;
	return 0;
}
static void ms_close(void *ctx) {
	msys *S = ctx;
	mtbl_iter_destroy(&S->it); mtbl_merger_destroy(&S->m);
	for (int s = 0; s < S->F.k; s++) {
		if (S->rd[s]) mtbl_reader_destroy(&S->rd[s]);
		if (S->usrc_src[s]) { mtbl_source_destroy(&S->usrc_src[s]); for (int i = 0; i < S->us[s].n; i++) free(S->us[s].v[i]); }
	}
	free(S->ck); free(S->cv); S->ck = S->cv = NULL;
}

/* parse a fold tree "(x+y)" into leaves; returns number of leaves or -1 */
static int parse_leaves(const uint8_t *v, size_t n, struct { const uint8_t *p; size_t n; } *leaf, int max) {
	int nl = 0, depth = 0; size_t i = 0, start = 0; bool in = false;
	for (; i <= n; i++) {
		uint8_t c = i < n ? v[i] : ')';
		bool sep = (c == '(' || c == '+' || c == ')');
		if (!sep) { if (!in) { in = true; start = i; } continue; }
		if (in) { if (nl >= max) return -1; leaf[nl].p = v + start; leaf[nl].n = i - start; nl++; in = false; }
		if (i < n) { if (c == '(') depth++; else if (c == ')') { if (--depth < 0) return -1; } }
	}
	return depth == 0 ? nl : -1;
}
/* does value v equal exactly the fold of the values of sources in `mask` for key ki (any fold order)? */
static bool value_is_fold(const family *F, int ki, unsigned mask, const uint8_t *v, size_t vl, char *why, size_t wn) {
	int want = __builtin_popcount(mask);
	if (F->mstyle == 1) {
		uint64_t sum = 0; uint8_t vb[700]; for (int e = 0; e < 2 * F->k; e++) if (mask >> e & 1) sum += src_val(F, e, ki, vb);
		for (size_t i = (vl && v[0] == '#') ? 1 : 0; i < vl; i++) if (v[0] == '#' ? (v[i] < '0' || v[i] > '9') : v[i] != 'x') { snprintf(why, wn, "value is neither a unary count nor a decimal sum (stale bytes?)"); return false; }
		if (want == 1 && vl && v[0] == '#') { snprintf(why, wn, "a key present once must pass through unchanged"); return false; }
		if (sum_parse(v, vl) != sum) { snprintf(why, wn, "value sums to %llu, the source values for the key sum to %llu", (unsigned long long) sum_parse(v, vl), (unsigned long long) sum); return false; }
		return true;
	}
	struct { const uint8_t *p; size_t n; } leaf[16];
	int nl = parse_leaves(v, vl, (void *) leaf, 16);
	if (nl < 0) { snprintf(why, wn, "value is not a well-formed fold tree"); return false; }
	if (nl != want) { snprintf(why, wn, "value folds %d source values, %d source entries hold the key", nl, want); return false; }
	if (want == 1 && (v[0] == '(')) { snprintf(why, wn, "a key present in one source must pass through unchanged"); return false; }
	unsigned seen = 0;
	for (int i = 0; i < nl; i++) {
		bool found = false;
		for (int e = 0; e < 2 * F->k; e++) if ((mask >> e & 1) && !(seen >> e & 1)) { uint8_t vb[700]; size_t l = src_val(F, e, ki, vb); if (l == leaf[i].n && !memcmp(vb, leaf[i].p, l)) { seen |= 1u << e; found = true; break; } }
		if (!found) { snprintf(why, wn, "leaf '%.*s' is not an unused source value for this key", (int) (leaf[i].n > 12 ? 12 : leaf[i].n), leaf[i].p); return false; }
	}
	return true;
}

static bool check_last(msys *S) {
	if (!S->have_last) return true;
	if (memcmp(S->lk, S->ck, S->lkl) || memcmp(S->lv, S->cv, S->lvl)) { snprintf(bfs_fail, sizeof bfs_fail, "buffers returned by the previous next were modified before the next call on this iterator"); return false; }
	return true;
}

/* op 0 = next, 1+t = seek(TG[t]) */
static bool ms_step(void *ctx, int op) {
	msys *S = ctx; family *F = &S->F;
	if (S->dead) { const uint8_t *k, *v; size_t kl, vl; if (op == 0) mtbl_iter_next(S->it, &k, &kl, &v, &vl); else mtbl_iter_seek(S->it, TG[op - 1].b, TG[op - 1].n); return true; }
	if (!check_last(S)) return false;
	if (op == 0) {
		const uint8_t *k = NULL, *v = NULL; size_t kl = 0, vl = 0;
		mtbl_res r = mtbl_iter_next(S->it, &k, &kl, &v, &vl);
		/* reference: skip keys nobody holds / fully consumed */
		while (S->ki < NU && (srcs_with(F, S->ki) & ~S->used) == 0) { S->ki++; S->used = 0; }
		bool want_ok = !S->failed && S->ki < NU && key_in_bound(&S->sp, S->ki);
		S->have_last = false;
		if (!want_ok) {
			S->failed = true;
			if (r == mtbl_res_success) { snprintf(bfs_fail, sizeof bfs_fail, "next returned key %s, expected failure", vh_hex(k, kl)); return false; }
			return true;
		}
		bool merge_fails = F->merge && F->failkey == S->ki && __builtin_popcount(srcs_with(F, S->ki)) - 1 >= F->failnth;
		if (merge_fails) {
			if (r == mtbl_res_success) { snprintf(bfs_fail, sizeof bfs_fail, "merge callback failed for key %s but next returned success (key %s)", vh_hex(UK[S->ki].b, UK[S->ki].n), vh_hex(k, kl)); return false; }
			S->dead = true;      /* the statement fixes nothing beyond this call: stop the reference here */
			return true;
		}
		if (r != mtbl_res_success) { snprintf(bfs_fail, sizeof bfs_fail, "next failed, expected key %s", vh_hex(UK[S->ki].b, UK[S->ki].n)); return false; }
		if (kl != UK[S->ki].n || memcmp(k, UK[S->ki].b, kl)) { snprintf(bfs_fail, sizeof bfs_fail, "next returned key %s, expected %s", vh_hex(k, kl), vh_hex(UK[S->ki].b, UK[S->ki].n)); return false; }
		char why[200];
		if (F->merge) {
			if (!value_is_fold(F, S->ki, srcs_with(F, S->ki), v, vl, why, sizeof why)) { snprintf(bfs_fail, sizeof bfs_fail, "key %s: %s (value %.40s)", vh_hex(k, kl), why, (const char *) v); return false; }
			S->ki++; S->used = 0;
		} else {
			/* one source entry: must be an unconsumed source's value; with dupsort the largest remaining one */
			unsigned avail = srcs_with(F, S->ki) & ~S->used; int which = -1;
			for (int e = 0; e < 2 * F->k; e++) if (avail >> e & 1) { uint8_t vb[700]; size_t l = src_val(F, e, S->ki, vb); if (l == vl && !memcmp(vb, v, l)) which = e; }
			if (which < 0) { snprintf(bfs_fail, sizeof bfs_fail, "key %s: value %.12s is not an un-emitted source entry", vh_hex(k, kl), (const char *) v); return false; }
			if (F->dupsort) for (int s = 0; s < 2 * F->k; s++) if ((avail >> s & 1) && s != which) { uint8_t vb[700], wb[700]; size_t l = src_val(F, s, S->ki, vb), wl = src_val(F, which, S->ki, wb); if (rev_dupsort(NULL, NULL, 0, wb, wl, vb, l) > 0) { snprintf(bfs_fail, sizeof bfs_fail, "key %s: entries with equal keys are not in dupsort order", vh_hex(k, kl)); return false; } }
			S->used |= 1u << which;
		}
		S->have_last = true; S->lk = k; S->lkl = kl; S->lv = v; S->lvl = vl;
		free(S->ck); free(S->cv); S->ck = malloc(kl + 1); memcpy(S->ck, k, kl); S->cv = malloc(vl + 1); memcpy(S->cv, v, vl);
	} else {
		int t = op - 1;
		uint8_t *ck = malloc(TG[t].n + 1); memcpy(ck, TG[t].b, TG[t].n);
		mtbl_res r = mtbl_iter_seek(S->it, ck, TG[t].n);
		free(ck);
		S->have_last = false;
		if (S->it == NULL) { S->failed = true; return true; }          /* NULL iterator == empty result */
		if (r != mtbl_res_success) { snprintf(bfs_fail, sizeof bfs_fail, "seek(%s) reported failure", vh_hex(TG[t].b, TG[t].n)); return false; }
		S->ki = lb_key(TG[t].b, TG[t].n); S->used = 0; S->failed = false;
		g_failkey = F->failkey; memset(g_calls_for_key, 0, sizeof g_calls_for_key);
	}
	return true;
}
static int ms_alphabet(void *ctx, int *ops, int max) {
	msys *S = ctx; int n = 0; (void) max;
	ops[n++] = 0;
	for (int t = 0; t < NT; t++) if (S->sp.kind == K_ITER || vh_bscmp(TG[t].b, TG[t].n, TG[S->sp.a].b, TG[S->sp.a].n) >= 0) ops[n++] = 1 + t;
	return n;
}

#ifdef VH_BLACKBOX
static uint64_t ms_canon(void *ctx) { (void) ctx; return 0; }     /* unused: bfs.h identifies states by their history */
#else
static uint64_t canon_src_iter(const struct mtbl_iter *it) {
	if (!it) return 0xdead;
	if (is_reader_iter(it)) return canon_reader_iter(it->clos);
	if (it->iter_next == uit_next) { const uit *x = it->clos; return vh_mix(vh_mix(0x7e, x->pos), x->dead * 4 + (x->lastk != NULL) * 2 + x->kind); }
	return 0xbad;
}
static uint64_t ms_canon(void *ctx) {
	msys *S = ctx;
	uint64_t h = vh_mix(vh_mix(S->ki, S->used) * 4 + S->failed * 2 + S->have_last, 5 + S->dead);
	if (!S->it) return vh_mix(h, 0xdead);
	struct merger_iter *mi = S->it->clos;
	h = vh_mix(h, mi->finished * 2 + mi->pending);
	h = vh_hash(ubuf_data(mi->cur_key), ubuf_size(mi->cur_key), h);
	h = vh_hash(ubuf_data(mi->cur_val), ubuf_size(mi->cur_val), h);
	size_t hs = heap_size(mi->h);
	h = vh_mix(h, hs);
	for (size_t i = 0; i < hs; i++) {
		struct entry *e = heap_get(mi->h, i);
		size_t idx = 0; for (size_t j = 0; j < iter_vec_size(mi->iters); j++) if (iter_vec_value(mi->iters, j) == e->it) idx = j;
		h = vh_mix(h, idx * 2 + e->finished);
		if (!e->finished) { h = vh_hash(e->key, e->len_key, h); h = vh_hash(e->val, e->len_val, h); }
	}
	for (size_t j = 0; j < entry_vec_size(mi->entries); j++) h = vh_mix(h, entry_vec_value(mi->entries, j)->finished);
	for (size_t j = 0; j < iter_vec_size(mi->iters); j++) h = vh_mix(h, canon_src_iter(iter_vec_value(mi->iters, j)));
	return h;
}
#endif

static const char *fam_desc(const family *F, const ispec *sp) {
	static char b[200]; int o = snprintf(b, sizeof b, "M:%d:", F->k);
	for (int s = 0; s < F->k; s++) o += snprintf(b + o, sizeof b - o, "%c%d,", F->kind[s], F->mask[s]);
	snprintf(b + o, sizeof b - o, ":%d%d:%d.%d:%d,%d,%d", F->merge, F->dupsort + 2 * F->mstyle, F->failkey, F->failnth + 100 * F->failstyle, sp->kind, sp->a, sp->b);
	return b;
}
static const char *ms_explain(void *ctx, const int *ops, int nops) {
	msys *S = ctx; static char b[1200]; int o = 0;
	for (int s = 0; s < S->F.k; s++) { o += snprintf(b + o, sizeof b - o, "src%d(%c)={", s, S->F.kind[s]); for (int i = 0; i < NU; i++) if (S->F.mask[s] >> i & 1) o += snprintf(b + o, sizeof b - o, "%s ", vh_hex(UK[i].b, UK[i].n)); o += snprintf(b + o, sizeof b - o, "} "); }
	static const char *kn[] = { "iter", "get", "get_prefix", "get_range" };
	o += snprintf(b + o, sizeof b - o, "merge=%d dupsort=%d; %s(", S->F.merge, S->F.dupsort, kn[S->sp.kind]);
	if (S->sp.kind != K_ITER) o += snprintf(b + o, sizeof b - o, "%s", vh_hex(TG[S->sp.a].b, TG[S->sp.a].n));
	if (S->sp.kind == K_RANGE) o += snprintf(b + o, sizeof b - o, ",%s", vh_hex(TG[S->sp.b].b, TG[S->sp.b].n));
	o += snprintf(b + o, sizeof b - o, "); ops:");
	for (int i = 0; i < nops && o < 1100; i++) { if (ops[i] == 0) o += snprintf(b + o, sizeof b - o, " next"); else o += snprintf(b + o, sizeof b - o, " seek(%s)", vh_hex(TG[ops[i] - 1].b, TG[ops[i] - 1].n)); }
	return b;
}
static bfs_sys BS;
static void render(char *b, size_t n, void *ctx) {
	msys *S = ctx; int o = snprintf(b, n, "%s:", fam_desc(&S->F, &S->sp));
	for (int i = 0; i < BS.nops && o < (int) n - 8; i++) o += snprintf(b + o, n - o, "%d%s", BS.ops[i], i + 1 < BS.nops ? "." : "");
}

/* ------------------------------------------------------------ enumeration */
static msys S;
static uint64_t g_idx;
static const ispec SPECS[] = {
	{ K_ITER, 0, 0 },
	{ K_GET, 0, 0 }, { K_GET, 3, 0 }, { K_GET, 5, 0 }, { K_GET, 4, 0 },
	{ K_PREFIX, 0, 0 }, { K_PREFIX, 3, 0 }, { K_PREFIX, 5, 0 }, { K_PREFIX, 2, 0 },
	{ K_RANGE, 0, 9 }, { K_RANGE, 3, 5 }, { K_RANGE, 4, 7 }, { K_RANGE, 5, 3 }, { K_RANGE, 2, 2 }, { K_RANGE, 5, 5 },
};
#define NSPEC ((int) (sizeof SPECS / sizeof *SPECS))

static void for_each_family(int maxk, const char *kinds, void (*fn)(void)) {
	for (int k = 0; k <= maxk; k++) {
		int total = 1; for (int i = 0; i < k; i++) total *= 16;
		for (int code = 0; code < total; code++) {
			int x = code; bool canonical = true;
			for (int s = 0; s < k; s++) { S.F.mask[s] = x % 16; x /= 16; }
			(void) canonical;
			for (const char *kd = kinds; *kd; kd++) {
				if (!vh_mine(g_idx++)) continue;
				if (vh_time_up() || vh_too_many()) return;
				S.F.k = k;
				for (int s = 0; s < k; s++) S.F.kind[s] = (*kd == 'x') ? "rum"[s % 3] : (*kd == 'y') ? "dru"[s % 3] : *kd;
				family_images(&S);
				fn();
				family_images_free(&S);
			}
		}
	}
}

/* C04: drain the plain iterator for every option combination; with merge also every failing (key, nth) */
static void do_drain(void) {
	for (int mg = 0; mg < 2; mg++) for (int ds = 0; ds < 2; ds++) for (int ms = 0; ms < (mg ? 2 : 1); ms++) {
		S.F.merge = mg; S.F.dupsort = ds; S.F.failkey = -1; S.F.failnth = 0; S.sp = SPECS[0];
		if (S.F.mstyle != ms) { family_images_free(&S); S.F.mstyle = ms; family_images(&S); }    /* source tables hold values of the current style */
		int ops[48]; int n = 0; int total = 0; for (int i = 0; i < NU; i++) total += mg ? (srcs_with(&S.F, i) != 0) : __builtin_popcount(srcs_with(&S.F, i));
		for (int i = 0; i < total + 2; i++) ops[n++] = 0;
		vh_case_begin(render, &S);
		bfs_replay(&BS, ops, n, NULL);
		VH_COUNT("states", 1);
		vh_case_end();
		uint64_t sig = vh_mix(mg * 2 + ds + 4 * ms, S.F.k); for (int i = 0; i < NU; i++) sig = vh_mix(sig, __builtin_popcount(srcs_with(&S.F, i))); for (int s = 0; s < S.F.k; s++) sig = vh_mix(sig, S.F.kind[s]);
		vh_sig(sig);
		if (g_merge_calls) VH_COUNT("drains_with_merging", 1);
		for (int s = 0; s < S.F.k; s++) if (S.F.kind[s] == 'd' && S.F.mask[s]) { VH_COUNT("drains_with_duplicate_keys_in_one_source", 1); break; }
		if (srcs_with(&S.F, 0)) VH_COUNT("drains_with_empty_key", 1);
	}
	if (S.F.mstyle != 0) { family_images_free(&S); S.F.mstyle = 0; family_images(&S); }
}
static void do_fail(void) {
	for (int fk = 0; fk < NU; fk++) {
		int c = __builtin_popcount(srcs_with(&S.F, fk));
		for (int nth = 1; nth < c; nth++) for (int ds = 0; ds < 2; ds++) for (int st = 0; st < 2; st++) {
			S.F.merge = true; S.F.dupsort = ds; S.F.failkey = fk; S.F.failnth = nth; S.F.failstyle = st; S.sp = SPECS[0];
			int ops[16]; int n = 0; for (int i = 0; i < NU + 1; i++) ops[n++] = 0;
			vh_case_begin(render, &S);
			bfs_replay(&BS, ops, n, NULL);
			VH_COUNT("states", 1); VH_COUNT("failing_callback_runs", 1);
			vh_case_end();
			vh_sig(vh_mix(vh_mix(fk, nth), c * 2 + st));
		}
	}
	S.F.failstyle = 0;
}
static int g_treedepth;
static void do_bfs(void) {
	for (int mg = 0; mg < 2; mg++) for (int si = 0; si < NSPEC; si++) {
		S.F.merge = mg; S.F.dupsort = 0; S.F.failkey = -1; S.F.failnth = 0; S.sp = SPECS[si];
		vh_case_begin(render, &S);
		BS.nops = 0;
		if (g_treedepth) bfs_tree(&BS, g_treedepth); else bfs_run(&BS);
		vh_case_end();
		uint64_t sig = vh_mix(mg, si); for (int i = 0; i < NU; i++) sig = vh_mix(sig, __builtin_popcount(srcs_with(&S.F, i))); for (int s = 0; s < S.F.k; s++) sig = vh_mix(sig, S.F.kind[s]);
		vh_sig(sig);
		if (vh_too_many()) return;
	}
	/* the same search with zero-length values in the first source (no merge function, so values pass through unchanged): plain iterator and one range */
	if (S.F.mask[0]) {
		family_images_free(&S); S.F.mstyle = 2; family_images(&S);
		for (int si = 0; si < NSPEC; si++) {
			if (si != 0 && SPECS[si].kind != K_RANGE) continue;
			S.F.merge = 0; S.F.dupsort = 0; S.F.failkey = -1; S.F.failnth = 0; S.sp = SPECS[si];
			vh_case_begin(render, &S);
			BS.nops = 0;
			if (g_treedepth) bfs_tree(&BS, g_treedepth); else bfs_run(&BS);
			vh_case_end();
			VH_COUNT("searches_with_empty_values", 1);
			if (si != 0) break;
		}
		family_images_free(&S); S.F.mstyle = 0; family_images(&S);
	}
}
/* one-shot lookups: every (kind, a, b) over the target set drained once */
static void do_lookup(void) {
	for (int mg = 0; mg < 2; mg++) for (int kind = K_GET; kind <= K_RANGE; kind++) for (int a = 0; a < NT; a++) for (int b = 0; b < (kind == K_RANGE ? NT : 1); b++) {
		S.F.merge = mg; S.F.dupsort = 0; S.F.failkey = -1; S.F.failnth = 0; S.sp = (ispec) { kind, a, b };
		int ops[16]; int n = 0; for (int i = 0; i < 10; i++) ops[n++] = 0;
		vh_case_begin(render, &S);
		bfs_replay(&BS, ops, n, NULL);
		VH_COUNT("states", 1); VH_COUNT("lookups", 1);
		vh_case_end();
		if (vh_too_many()) return;
	}
	uint64_t sig = 9; for (int i = 0; i < NU; i++) sig = vh_mix(sig, __builtin_popcount(srcs_with(&S.F, i))); vh_sig(sig);
}

/* ---- C04 additional observation paths: mtbl_source_write() and the real mtbl_merge tool with a merge DSO ---- */
static bool check_merged_file(const uint8_t *bytes, size_t len, char *why, size_t wn) {
	family *F = &S.F; ic_file f;
	if (ic_decode(bytes, len, &f)) { snprintf(why, wn, "output does not decode: %s", f.err); return false; }
	int ki = 0; bool ok = true;
	for (size_t b = 0; b < f.nblocks && ok; b++) for (size_t i = 0; i < f.blocks[b].n && ok; i++) {
		const ic_ent *e = &f.blocks[b].e[i];
		while (ki < NU && srcs_with(F, ki) == 0) ki++;
		if (ki >= NU) { snprintf(why, wn, "output holds an extra entry with key %s", vh_hex(e->key, e->klen)); ok = false; break; }
		if (e->klen != UK[ki].n || memcmp(e->key, UK[ki].b, e->klen)) { snprintf(why, wn, "output entry has key %s, expected %s", vh_hex(e->key, e->klen), vh_hex(UK[ki].b, UK[ki].n)); ok = false; break; }
		char w2[160];
		if (!value_is_fold(F, ki, srcs_with(F, ki), e->val, e->vlen, w2, sizeof w2)) { snprintf(why, wn, "key %s: %s", vh_hex(e->key, e->klen), w2); ok = false; break; }
		ki++;
	}
	if (ok) { while (ki < NU && srcs_with(F, ki) == 0) ki++; if (ki < NU) { snprintf(why, wn, "output lacks key %s", vh_hex(UK[ki].b, UK[ki].n)); ok = false; } }
	ic_free(&f);
	return ok;
}
static void do_srcwrite(void) {
	S.F.merge = true; S.F.dupsort = 0; S.F.failkey = -1; S.F.failnth = 0; S.sp = SPECS[0];
	vh_case_begin(render, &S); BS.nops = 0;
	if (ms_open(&S)) { vh_violation("open", "%s", bfs_fail); vh_case_end(); return; }
	mtbl_iter_destroy(&S.it);
	int wfd = tbl_memfd(); struct mtbl_writer_options *wo = mtbl_writer_options_init(); mtbl_writer_options_set_compression(wo, MTBL_COMPRESSION_NONE); mtbl_writer_options_set_block_size(wo, 1024);
	struct mtbl_writer *w = mtbl_writer_init_fd(wfd, wo); mtbl_writer_options_destroy(&wo);
	mtbl_res r = mtbl_source_write(mtbl_merger_source(S.m), w);
	mtbl_writer_destroy(&w);
	size_t len; uint8_t *bytes = tbl_slurp(wfd, &len); close(wfd);
	char why[300];
	if (r != mtbl_res_success) vh_violation("source-write", "mtbl_source_write of a merger reported failure");
	else if (!check_merged_file(bytes, len, why, sizeof why)) vh_violation("source-write", "file written by mtbl_source_write: %s", why);
	free(bytes);
	ms_close(&S);
	VH_COUNT("states", 1); VH_COUNT("executions", 1); VH_COUNT("transitions", 1); VH_COUNT("source_write_runs", 1);
	vh_case_end();
}
static void do_tool(void) {
	const char *exe = getenv("VERIF_TOOL_MTBL_MERGE"), *dso = getenv("VERIF_DSO_FOLD_DSO"), *dir = getenv("VERIF_SCRATCH_DIR");
	if (!exe || !dso || !dir) { printf("@error \"merger: mtbl_merge tool / DSO / scratch dir not provided\"\n"); return; }
	if (S.F.k == 0) return;                      /* the tool needs at least one input */
	S.F.merge = true; S.F.dupsort = 0; S.F.failkey = -1; S.F.failnth = 0; S.sp = SPECS[0];
	vh_case_begin(render, &S); BS.nops = 0;
	char in[MAXSRC][300], out[300]; char *argv[16]; int a = 0; static int serial;
	static const char *comp[] = { "none", "zlib", "lz4", "zstd" }; const char *cm = comp[serial % 4];
	argv[a++] = "mtbl_merge"; argv[a++] = "-b"; argv[a++] = "1024"; argv[a++] = "-c"; argv[a++] = (char *) cm;
	if (serial % 3 == 1) { argv[a++] = "-t"; argv[a++] = "2"; }
	for (int s = 0; s < S.F.k; s++) { snprintf(in[s], sizeof in[s], "%s/in%d.mtbl", dir, s); FILE *f = fopen(in[s], "wb"); fwrite(S.img[s], 1, S.imglen[s], f); fclose(f); argv[a++] = in[s]; }
	snprintf(out, sizeof out, "%s/out.mtbl", dir); unlink(out); argv[a++] = out; argv[a] = NULL; serial++;
	fflush(stdout);
	pid_t pid = fork();
	if (pid == 0) { setenv("MTBL_MERGE_DSO", dso, 1); setenv("MTBL_MERGE_FUNC_PREFIX", "vfold", 1); setenv("LC_ALL", "C", 1); int dn = open("/dev/null", O_WRONLY); dup2(dn, 1); dup2(dn, 2); execv(exe, argv); _exit(127); }
	int st = 0; waitpid(pid, &st, 0);
	if (!WIFEXITED(st) || WEXITSTATUS(st) != 0) vh_violation("mtbl_merge", "mtbl_merge ended with status 0x%x (compression %s)", st, cm);
	else {
		int fd = open(out, O_RDONLY); if (fd < 0) vh_violation("mtbl_merge", "mtbl_merge did not create its output file");
		else { size_t len; uint8_t *bytes = tbl_slurp(fd, &len); close(fd); char why[300]; if (!check_merged_file(bytes, len, why, sizeof why)) vh_violation("mtbl_merge", "output of mtbl_merge (-c %s): %s", cm, why); free(bytes); }
	}
	for (int s = 0; s < S.F.k; s++) unlink(in[s]);
	unlink(out);
	VH_COUNT("states", 1); VH_COUNT("executions", 1); VH_COUNT("transitions", 1); VH_COUNT("tool_runs", 1);
	vh_case_end();
}

/* ---- C04: many sources (the binary heap only gets interesting beyond six entries) ----
 * n = 7..8 (thorough 9) one-entry-plus-tail sources whose first keys are ALL permutations of n distinct keys in add order; every source
 * also holds the common key 'z'. Drained with and without merge function; real readers for a sample of the permutations. */
typedef struct { int n; int first[10]; int pos; uint8_t *lk, *lv; int id; } ksrc_it;
typedef struct { int first; int id; } ksrc;
static mtbl_res ks_next(void *v, const uint8_t **k, size_t *kl, const uint8_t **val, size_t *vl) {
	ksrc_it *x = v; free(x->lk); free(x->lv); x->lk = x->lv = NULL;
	if (x->pos >= 2) return mtbl_res_failure;
	x->lk = malloc(1); x->lk[0] = x->pos == 0 ? (uint8_t) ('a' + x->first[0]) : 'z';
	x->lv = malloc(2); x->lv[0] = 'A' + x->id; x->lv[1] = x->pos == 0 ? '0' : '1';
	*k = x->lk; *kl = 1; *val = x->lv; *vl = 2; x->pos++;
	return mtbl_res_success;
}
static mtbl_res ks_seek(void *v, const uint8_t *k, size_t kl) { ksrc_it *x = v; uint8_t f = 'a' + x->first[0]; x->pos = (kl == 0 || vh_bscmp(&f, 1, k, kl) >= 0) ? 0 : (vh_bscmp((const uint8_t *) "z", 1, k, kl) >= 0 ? 1 : 2); return mtbl_res_success; }
static void ks_free(void *v) { ksrc_it *x = v; free(x->lk); free(x->lv); free(x); }
static struct mtbl_iter *ks_iter(void *c) { ksrc *s = c; ksrc_it *x = calloc(1, sizeof *x); x->first[0] = s->first; x->id = s->id; return mtbl_iter_init(ks_seek, ks_next, ks_free, x); }
static struct mtbl_iter *ks_get(void *c, const uint8_t *k, size_t kl) { (void) k; (void) kl; return ks_iter(c); }
static struct mtbl_iter *ks_range(void *c, const uint8_t *a, size_t al, const uint8_t *b, size_t bl) { (void) a; (void) al; (void) b; (void) bl; return ks_iter(c); }
static int g_many_perm[10], g_many_n, g_many_merge;
static void render_many(char *b, size_t n, void *ctx) { (void) ctx; int o = snprintf(b, n, "MANY:%d:%d:", g_many_n, g_many_merge); for (int i = 0; i < g_many_n; i++) o += snprintf(b + o, n - o, "%d", g_many_perm[i]); }
static void many_run(void) {
	vh_case_begin(render_many, NULL);
	int n = g_many_n; ksrc ks[10]; struct mtbl_source *src[10];
	struct mtbl_merger_options *mo = mtbl_merger_options_init(); g_mstyle = 0; g_failkey = -1;
	if (g_many_merge) mtbl_merger_options_set_merge_func(mo, fold_merge, NULL);
	struct mtbl_merger *m = mtbl_merger_init(mo); mtbl_merger_options_destroy(&mo);
	for (int i = 0; i < n; i++) { ks[i].first = g_many_perm[i]; ks[i].id = i; src[i] = mtbl_source_init(ks_iter, ks_get, ks_get, ks_range, NULL, &ks[i]); mtbl_merger_add_source(m, src[i]); }
	struct mtbl_iter *it = mtbl_source_iter(mtbl_merger_source(m));
	const uint8_t *k, *v; size_t kl, vl; int got = 0; int zs = 0; bool bad = false;
	while (mtbl_iter_next(it, &k, &kl, &v, &vl) == mtbl_res_success) {
		if (got < n) { if (kl != 1 || k[0] != 'a' + got || vl != 2 || v[1] != '0') { vh_violation("many-sources", "entry #%d is key %s, expected key %c (the %d first keys must come out in ascending order)", got, vh_hex(k, kl), 'a' + got, n); bad = true; break; } }
		else {
			if (kl != 1 || k[0] != 'z') { vh_violation("many-sources", "entry #%d is key %s, expected the common key z", got, vh_hex(k, kl)); bad = true; break; }
			if (g_many_merge) { unsigned seen = 0; int leaves = 0; for (size_t i = 0; i + 1 < vl; i++) if (v[i] >= 'A' && v[i] < 'A' + n && v[i + 1] == '1') { seen |= 1u << (v[i] - 'A'); leaves++; } if (leaves != n || seen != (1u << n) - 1) { vh_violation("many-sources", "the common key folds %d values (mask %x), %d sources hold it", leaves, seen, n); bad = true; break; } zs = n; }
			else zs++;
		}
		got++;
		if (got > 3 * n) { vh_violation("many-sources", "more entries than the sources hold"); bad = true; break; }
	}
	if (!bad && (got != (g_many_merge ? n + 1 : 2 * n) || zs != n)) vh_violation("many-sources", "iteration returned %d entries (%d for the common key) from %d two-entry sources", got, zs, n);
	mtbl_iter_destroy(&it); mtbl_merger_destroy(&m);
	for (int i = 0; i < n; i++) mtbl_source_destroy(&src[i]);
	VH_COUNT("states", 1); VH_COUNT("executions", 1); VH_COUNT("transitions", got + 1); VH_COUNT("many_source_drains", 1);
	vh_case_end();
}
static void do_many(void) {
	uint64_t idx = 0;
	for (int n = 5; n <= (vh_thorough ? 9 : 8); n++) {
		int p[10]; for (int i = 0; i < n; i++) p[i] = i;
		for (;;) {
			if (vh_mine(idx++ >> 6)) { if (vh_time_up() || vh_too_many()) return; g_many_n = n; memcpy(g_many_perm, p, sizeof(int) * n); for (g_many_merge = 0; g_many_merge < 2; g_many_merge++) many_run(); }
			/* next permutation */
			int i = n - 2; while (i >= 0 && p[i] > p[i + 1]) i--;
			if (i < 0) break;
			int j = n - 1; while (p[j] < p[i]) j--;
			int t = p[i]; p[i] = p[j]; p[j] = t;
			for (int a = i + 1, b = n - 1; a < b; a++, b--) { t = p[a]; p[a] = p[b]; p[b] = t; }
		}
		vh_sig(vh_mix(0x3a27, n));
	}
}

int main(int argc, char **argv) {
	vh_init(argc, argv);
	BS = (bfs_sys) { .ctx = &S, .open = ms_open, .close = ms_close, .step = ms_step, .canon = ms_canon, .alphabet = ms_alphabet, .explain = ms_explain, .state_cap = 200000, .viol_key = "merger" };
	if (vh_case_arg) {
		if (!strncmp(vh_case_arg, "MANY:", 5)) { char pm[16] = ""; sscanf(vh_case_arg, "MANY:%d:%d:%15s", &g_many_n, &g_many_merge, pm); for (int i = 0; i < g_many_n; i++) g_many_perm[i] = pm[i] - '0'; many_run(); return vh_finish(); }
		const char *s = vh_case_arg; int off = 0, mg, ds;
		if (sscanf(s, "M:%d:%n", &S.F.k, &off) < 1) return 2; s += off;
		for (int i = 0; i < S.F.k; i++) { if (sscanf(s, "%c%d,%n", &S.F.kind[i], &S.F.mask[i], &off) < 2) return 2; s += off; }
		if (sscanf(s, ":%1d%1d:%d.%d:%d,%d,%d:%n", &mg, &ds, &S.F.failkey, &S.F.failnth, &S.sp.kind, &S.sp.a, &S.sp.b, &off) < 7) return 2; s += off;
		S.F.merge = mg; S.F.mstyle = ds / 2; S.F.dupsort = ds % 2; S.F.failstyle = S.F.failnth / 100; S.F.failnth %= 100;
		int ops[BFS_MAXD + 2], n = 0;
		while (*s && n < BFS_MAXD) { int v, o2; if (sscanf(s, "%d%n", &v, &o2) < 1) break; ops[n++] = v; s += o2; if (*s == '.') s++; }
		family_images(&S);
		if (!strcmp(vh_arg(0, ""), "tool")) { do_tool(); return vh_finish(); }
		if (!strcmp(vh_arg(0, ""), "srcwrite")) { do_srcwrite(); return vh_finish(); }
		vh_case_begin(render, &S);
		fprintf(stderr, "replay: %s\n", ms_explain(&S, ops, n));
		bfs_replay(&BS, ops, n, NULL);
		vh_case_end();
		return vh_finish();
	}
	const char *mode = vh_arg(0, "drain");
	if (!strcmp(mode, "drain")) { BS.viol_key = "merge-output"; for_each_family(vh_thorough ? 4 : 3, "rumxdy", do_drain); }
	else if (!strcmp(mode, "fail")) { BS.viol_key = "merge-failure"; for_each_family(vh_thorough ? 4 : 3, "rxy", do_fail); }
	else if (!strcmp(mode, "bfs")) { BS.viol_key = "seek-contract"; for_each_family(vh_thorough ? 3 : 2, vh_thorough ? "rxd" : "rmud", do_bfs); }
	else if (!strcmp(mode, "tree")) { BS.viol_key = "seek-contract"; g_treedepth = vh_thorough ? 4 : 3; for_each_family(2, "x", do_bfs); }
	else if (!strcmp(mode, "many")) { do_many(); }
	else if (!strcmp(mode, "srcwrite")) { BS.viol_key = "source-write"; for_each_family(3, "rmx", do_srcwrite); }
	else if (!strcmp(mode, "tool")) { BS.viol_key = "mtbl_merge"; for_each_family(vh_thorough ? 3 : 2, "rm", do_tool); }
	else if (!strcmp(mode, "lookup")) { BS.viol_key = "lookup"; for_each_family(vh_thorough ? 3 : 2, "rmx", do_lookup); }
	if (vh_shard == 0) vh_sample("src0(r)={e a } src1(m)={a b } merge=1; iter(); ops: next seek(a) next seek(a) next next");
	return vh_finish();
}
