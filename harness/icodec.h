/* icodec.h -- an independent implementation of the MTBL v1/v2 file format (decoder, structural checker, encoder).
 * Shares no code with mtbl/: own varint, own bit-wise CRC-32C table, calls the compression libraries directly. */
#ifndef ICODEC_H
#define ICODEC_H
#include <stdint.h>
#include <stdbool.h>
#include <stdlib.h>
#include <string.h>
#include <stdio.h>
#include <zlib.h>
#include <lz4.h>
#include <lz4hc.h>
#include <snappy-c.h>
#include <zstd.h>

#define IC_MAGIC_V1 0x77846676u
#define IC_MAGIC_V2 0x4D54424Cu
enum { IC_NONE = 0, IC_SNAPPY = 1, IC_ZLIB = 2, IC_LZ4 = 3, IC_LZ4HC = 4, IC_ZSTD = 5 };

typedef struct {
	uint8_t *key; size_t klen;          /* full key (owned) */
	const uint8_t *val; size_t vlen;    /* points into block data */
	uint32_t shared, nonshared;
	size_t off;                         /* offset of the entry inside the uncompressed block */
	bool is_restart;
} ic_ent;

typedef struct {
	uint64_t file_off;                  /* where the block's length prefix starts */
	size_t hdr_len;                     /* bytes of length prefix */
	uint64_t stored_len;                /* bytes as stored (compressed) */
	uint32_t crc_stored, crc_calc;
	size_t total_len;                   /* hdr_len + 4 + stored_len */
	uint8_t *data; size_t size; bool owned; /* uncompressed contents */
	ic_ent *e; size_t n;
	uint64_t *restarts; uint32_t nrestarts; bool restart64; size_t entries_end;
} ic_block;

typedef struct {
	int version;
	uint64_t index_off, block_size, comp, n_entries, n_blocks, bytes_data, bytes_index, bytes_keys, bytes_vals;
	bool padding_zero;
	ic_block index;
	ic_block *blocks; size_t nblocks;
	uint64_t *block_off;                /* decoded index values */
	char err[256];
} ic_file;

static uint32_t ic_crctab[256]; static int ic_crc_ready;
static uint32_t ic_crc32c(const uint8_t *p, size_t n) {
	if (!ic_crc_ready) { for (uint32_t i = 0; i < 256; i++) { uint32_t c = i; for (int k = 0; k < 8; k++) c = (c & 1) ? (c >> 1) ^ 0x82F63B78u : c >> 1; ic_crctab[i] = c; } ic_crc_ready = 1; }
	uint32_t c = 0xffffffffu;
	for (size_t i = 0; i < n; i++) c = ic_crctab[(c ^ p[i]) & 0xff] ^ (c >> 8);
	return ~c;
}
static inline uint32_t ic_le32(const uint8_t *p) { return (uint32_t) p[0] | (uint32_t) p[1] << 8 | (uint32_t) p[2] << 16 | (uint32_t) p[3] << 24; }
static inline uint64_t ic_le64(const uint8_t *p) { return (uint64_t) ic_le32(p) | (uint64_t) ic_le32(p + 4) << 32; }
static inline void ic_put32(uint8_t *p, uint32_t v) { p[0] = v; p[1] = v >> 8; p[2] = v >> 16; p[3] = v >> 24; }
static inline void ic_put64(uint8_t *p, uint64_t v) { ic_put32(p, (uint32_t) v); ic_put32(p + 4, (uint32_t) (v >> 32)); }
/* returns bytes consumed, 0 on error (runs past limit or > 10 bytes) */
static size_t ic_getvar(const uint8_t *p, const uint8_t *lim, uint64_t *v) {
	uint64_t r = 0; size_t i = 0;
	for (; p + i < lim && i < 10; i++) {
		r |= (uint64_t) (p[i] & 0x7f) << (7 * i);
		if (!(p[i] & 0x80)) { *v = r; return i + 1; }
	}
	return 0;
}
static size_t ic_putvar(uint8_t *p, uint64_t v) { size_t n = 0; while (v >= 0x80) { p[n++] = (uint8_t) (v | 0x80); v >>= 7; } p[n++] = (uint8_t) v; return n; }

static int ic_decompress(int comp, const uint8_t *in, size_t inlen, uint8_t **out, size_t *outlen) {
	switch (comp) {
	case IC_SNAPPY: {
		size_t n; if (snappy_uncompressed_length((const char *) in, inlen, &n) != SNAPPY_OK) return -1;
		*out = malloc(n + 1); if (snappy_uncompress((const char *) in, inlen, (char *) *out, &n) != SNAPPY_OK) { free(*out); return -1; }
		*outlen = n; return 0; }
	case IC_ZLIB: {
		size_t cap = inlen * 4 + 1024;
		for (;;) {
			uLongf n = cap; *out = malloc(cap);
			int r = uncompress(*out, &n, in, inlen);
			if (r == Z_OK) { *outlen = n; return 0; }
			free(*out);
			if (r != Z_BUF_ERROR || cap > ((size_t) 1 << 34)) return -1;
			cap *= 4;
		} }
	case IC_LZ4: case IC_LZ4HC: {
		if (inlen < 4) return -1;
		uint32_t n = ic_le32(in); *out = malloc((size_t) n + 1);
		int r = LZ4_decompress_safe((const char *) in + 4, (char *) *out, (int) (inlen - 4), (int) n);
		if (r < 0 || (uint32_t) r != n) { free(*out); return -1; }
		*outlen = n; return 0; }
	case IC_ZSTD: {
		unsigned long long n = ZSTD_getFrameContentSize(in, inlen);
		if (n == ZSTD_CONTENTSIZE_ERROR || n == ZSTD_CONTENTSIZE_UNKNOWN) return -1;
		*out = malloc((size_t) n + 1);
		size_t r = ZSTD_decompress(*out, (size_t) n, in, inlen);
		if (ZSTD_isError(r) || r != n) { free(*out); return -1; }
		*outlen = (size_t) n; return 0; }
	}
	return -1;
}
static int ic_compress(int comp, const uint8_t *in, size_t inlen, uint8_t **out, size_t *outlen) {
	switch (comp) {
	case IC_SNAPPY: { size_t n = snappy_max_compressed_length(inlen); *out = malloc(n); if (snappy_compress((const char *) in, inlen, (char *) *out, &n) != SNAPPY_OK) return -1; *outlen = n; return 0; }
	case IC_ZLIB: { uLongf n = compressBound(inlen); *out = malloc(n); if (compress2(*out, &n, in, inlen, 6) != Z_OK) return -1; *outlen = n; return 0; }
	case IC_LZ4: { int b = LZ4_compressBound((int) inlen); *out = malloc(b + 4); int r = LZ4_compress_default((const char *) in, (char *) *out + 4, (int) inlen, b); if (r <= 0) return -1; ic_put32(*out, (uint32_t) inlen); *outlen = r + 4; return 0; }
	case IC_LZ4HC: { int b = LZ4_compressBound((int) inlen); *out = malloc(b + 4); int r = LZ4_compress_HC((const char *) in, (char *) *out + 4, (int) inlen, b, 4); if (r <= 0) return -1; ic_put32(*out, (uint32_t) inlen); *outlen = r + 4; return 0; }
	case IC_ZSTD: { size_t b = ZSTD_compressBound(inlen); *out = malloc(b); size_t r = ZSTD_compress(*out, b, in, inlen, 3); if (ZSTD_isError(r)) return -1; *outlen = r; return 0; }
	}
	return -1;
}

static void ic_block_free(ic_block *b) {
	for (size_t i = 0; i < b->n; i++) free(b->e[i].key);
	free(b->e); free(b->restarts);
	if (b->owned) free(b->data);
	memset(b, 0, sizeof *b);
}
static void ic_free(ic_file *f) {
	ic_block_free(&f->index);
	for (size_t i = 0; i < f->nblocks; i++) ic_block_free(&f->blocks[i]);
	free(f->blocks); free(f->block_off);
	memset(f, 0, sizeof *f);
}

/* parse the uncompressed contents of a block */
static int ic_parse_block(ic_block *b, char *err) {
	const uint8_t *d = b->data; size_t S = b->size;
	if (S < 8) { sprintf(err, "block smaller than 8 bytes"); return -1; }
	b->nrestarts = ic_le32(d + S - 4);
	if (b->nrestarts == 0) { sprintf(err, "zero restarts"); return -1; }
	if ((uint64_t) b->nrestarts * 4 + 4 > S) { sprintf(err, "restart array larger than block"); return -1; }
	size_t roff = S - 4 - (size_t) b->nrestarts * 4;
	b->restart64 = false;
	if (roff > 0xffffffffULL) {
		if ((uint64_t) b->nrestarts * 8 + 4 > S) { sprintf(err, "64-bit restart array larger than block"); return -1; }
		roff = S - 4 - (size_t) b->nrestarts * 8; b->restart64 = true;
		if (roff <= 0xffffffffULL) { sprintf(err, "ambiguous restart array width"); return -1; }
	}
	b->entries_end = roff;
	b->restarts = malloc(sizeof(uint64_t) * b->nrestarts);
	for (uint32_t i = 0; i < b->nrestarts; i++) b->restarts[i] = b->restart64 ? ic_le64(d + roff + 8 * (size_t) i) : ic_le32(d + roff + 4 * (size_t) i);
	size_t cap = 16; b->e = malloc(cap * sizeof(ic_ent)); b->n = 0;
	size_t p = 0; uint8_t *prev = NULL; size_t prevlen = 0; uint32_t ri = 0;
	while (p < roff) {
		uint64_t sh, ns, vl; size_t c;
		size_t start = p;
		if (!(c = ic_getvar(d + p, d + roff, &sh))) { sprintf(err, "bad shared varint at %zu", p); return -1; } p += c;
		if (!(c = ic_getvar(d + p, d + roff, &ns))) { sprintf(err, "bad non_shared varint at %zu", p); return -1; } p += c;
		if (!(c = ic_getvar(d + p, d + roff, &vl))) { sprintf(err, "bad value_length varint at %zu", p); return -1; } p += c;
		if (sh > prevlen) { sprintf(err, "entry at %zu shares %llu bytes but previous key has %zu", start, (unsigned long long) sh, prevlen); return -1; }
		if (ns > roff - p || vl > roff - p - ns) { sprintf(err, "entry at %zu runs past the entry area", start); return -1; }
		if (b->n == cap) { cap *= 2; b->e = realloc(b->e, cap * sizeof(ic_ent)); }
		ic_ent *e = &b->e[b->n++];
		e->klen = sh + ns; e->key = malloc(e->klen + 1);
		memcpy(e->key, prev, sh); memcpy(e->key + sh, d + p, ns);
		e->val = d + p + ns; e->vlen = vl; e->shared = (uint32_t) sh; e->nonshared = (uint32_t) ns; e->off = start;
		e->is_restart = false;
		while (ri < b->nrestarts && b->restarts[ri] < start) ri++;
		if (ri < b->nrestarts && b->restarts[ri] == start) e->is_restart = true;
		prev = e->key; prevlen = e->klen;
		p += ns + vl;
	}
	if (p != roff) { sprintf(err, "entries do not end at the restart array"); return -1; }
	return 0;
}

/* read one stored block (length prefix, crc, bytes) at file offset off; limit = first byte that may not be touched */
static int ic_read_block(const uint8_t *f, size_t limit, uint64_t off, int version, int comp, ic_block *b, char *err) {
	memset(b, 0, sizeof *b);
	b->file_off = off;
	if (off >= limit) { sprintf(err, "block offset %llu beyond limit %zu", (unsigned long long) off, limit); return -1; }
	uint64_t len;
	if (version == 1) { if (off + 4 > limit) { sprintf(err, "v1 length runs past limit"); return -1; } len = ic_le32(f + off); b->hdr_len = 4; }
	else { b->hdr_len = ic_getvar(f + off, f + limit, &len); if (!b->hdr_len) { sprintf(err, "bad block length varint at %llu", (unsigned long long) off); return -1; } }
	if (off + b->hdr_len + 4 > limit || len > limit - off - b->hdr_len - 4) { sprintf(err, "block at %llu (len %llu) runs past limit %zu", (unsigned long long) off, (unsigned long long) len, limit); return -1; }
	b->stored_len = len; b->total_len = b->hdr_len + 4 + len;
	b->crc_stored = ic_le32(f + off + b->hdr_len);
	const uint8_t *stored = f + off + b->hdr_len + 4;
	b->crc_calc = ic_crc32c(stored, len);
	if (comp == IC_NONE) { b->data = (uint8_t *) stored; b->size = len; b->owned = false; }
	else { if (ic_decompress(comp, stored, len, &b->data, &b->size)) { sprintf(err, "block at %llu does not decompress", (unsigned long long) off); return -1; } b->owned = true; }
	return ic_parse_block(b, err);
}

static int ic_decode(const uint8_t *f, size_t len, ic_file *o) {
	memset(o, 0, sizeof *o);
	if (len < 512) { sprintf(o->err, "file shorter than a trailer"); return -1; }
	const uint8_t *t = f + len - 512;
	uint32_t magic = ic_le32(t + 508);
	if (magic == IC_MAGIC_V2) o->version = 2; else if (magic == IC_MAGIC_V1) o->version = 1; else { sprintf(o->err, "bad magic %08x", magic); return -1; }
	o->index_off = ic_le64(t); o->block_size = ic_le64(t + 8); o->comp = ic_le64(t + 16); o->n_entries = ic_le64(t + 24);
	o->n_blocks = ic_le64(t + 32); o->bytes_data = ic_le64(t + 40); o->bytes_index = ic_le64(t + 48); o->bytes_keys = ic_le64(t + 56); o->bytes_vals = ic_le64(t + 64);
	o->padding_zero = true; for (size_t i = 72; i < 508; i++) if (t[i]) o->padding_zero = false;
	if (o->comp > 5) { sprintf(o->err, "unknown compression %llu", (unsigned long long) o->comp); return -1; }
	if (o->index_off > len - 512) { sprintf(o->err, "index offset beyond data area"); return -1; }
	if (ic_read_block(f, len - 512, o->index_off, o->version, IC_NONE, &o->index, o->err)) return -1;
	o->nblocks = o->index.n;
	o->blocks = calloc(o->nblocks + 1, sizeof(ic_block));
	o->block_off = calloc(o->nblocks + 1, sizeof(uint64_t));
	for (size_t i = 0; i < o->nblocks; i++) {
		uint64_t off; size_t c = ic_getvar(o->index.e[i].val, o->index.e[i].val + o->index.e[i].vlen, &off);
		if (!c || c != o->index.e[i].vlen) { sprintf(o->err, "index value %zu is not one varint", i); return -1; }
		o->block_off[i] = off;
		if (ic_read_block(f, o->index_off, off, o->version, (int) o->comp, &o->blocks[i], o->err)) return -1;
	}
	return 0;
}

static int ic_cmp(const uint8_t *a, size_t al, const uint8_t *b, size_t bl) {
	size_t m = al < bl ? al : bl; int r = m ? memcmp(a, b, m) : 0;
	if (r) return r < 0 ? -1 : 1;
	return al < bl ? -1 : al > bl;
}

/* Structural rules of a well-formed file as the writer must produce it (C09). prefix = bytes before the table;
 * restart_interval / block_size = configured values (0 = do not check the cadence / size rules).
 * Returns NULL if fine, else a static description of the first broken rule. */
static const char *ic_check_written(const ic_file *o, size_t filelen, size_t prefix, size_t restart_interval, size_t block_size) {
	static char m[512];
	if (o->version != 2) return "writer must produce format v2";
	if (!o->padding_zero) return "trailer padding is not zero";
	if (o->index.crc_stored != o->index.crc_calc) return "index block CRC32C mismatch";
	if (o->index_off + o->index.total_len + 512 != filelen) { sprintf(m, "index block (off %llu len %zu) + trailer do not end the file (%zu)", (unsigned long long) o->index_off, o->index.total_len, filelen); return m; }
	uint64_t pos = prefix;
	for (size_t i = 0; i < o->nblocks; i++) {
		const ic_block *b = &o->blocks[i];
		if (o->block_off[i] != pos) { sprintf(m, "block %zu starts at %llu, expected contiguous offset %llu", i, (unsigned long long) o->block_off[i], (unsigned long long) pos); return m; }
		if (b->crc_stored != b->crc_calc) { sprintf(m, "block %zu CRC32C mismatch", i); return m; }
		pos += b->total_len;
		if (b->n == 0) { sprintf(m, "block %zu is empty", i); return m; }
	}
	if (pos != o->index_off) { sprintf(m, "data blocks end at %llu but index starts at %llu", (unsigned long long) pos, (unsigned long long) o->index_off); return m; }
	/* inside blocks (data and index) */
	for (size_t bi = 0; bi <= o->nblocks; bi++) {
		const ic_block *b = bi < o->nblocks ? &o->blocks[bi] : &o->index;
		if (b->restarts[0] != 0) { sprintf(m, "block %zu: restart[0] != 0", bi); return m; }
		for (uint32_t r = 1; r < b->nrestarts; r++) if (b->restarts[r] <= b->restarts[r - 1]) { sprintf(m, "block %zu: restart array not strictly increasing", bi); return m; }
		if (b->restart64 != (b->entries_end > 0xffffffffULL)) { sprintf(m, "block %zu: restart width does not match entry area size", bi); return m; }
		uint32_t seen_restarts = 0; size_t since = 0;
		for (size_t i = 0; i < b->n; i++) {
			const ic_ent *e = &b->e[i];
			if (i && ic_cmp(b->e[i - 1].key, b->e[i - 1].klen, e->key, e->klen) >= 0) { sprintf(m, "block %zu: keys not strictly increasing at entry %zu", bi, i); return m; }
			if (e->is_restart) {
				seen_restarts++;
				if (e->shared != 0) { sprintf(m, "block %zu: restart entry %zu has shared != 0", bi, i); return m; }
				if (restart_interval && i && since != restart_interval) { sprintf(m, "block %zu: restart after %zu entries, interval is %zu", bi, since, restart_interval); return m; }
				since = 1;
			} else {
				if (i == 0) { sprintf(m, "block %zu: first entry is not a restart point", bi); return m; }
				since++;
				if (restart_interval && since > restart_interval) { sprintf(m, "block %zu: %zu entries without a restart, interval is %zu", bi, since, restart_interval); return m; }
				/* longest common prefix must be elided */
				size_t l = 0; const ic_ent *pe = &b->e[i - 1];
				while (l < pe->klen && l < e->klen && pe->key[l] == e->key[l]) l++;
				if (e->shared != l) { sprintf(m, "block %zu entry %zu: shared=%u but longest common prefix is %zu", bi, i, e->shared, l); return m; }
			}
		}
		if (b->n == 0) { if (b->nrestarts != 1) { sprintf(m, "block %zu: empty block with %u restarts", bi, b->nrestarts); return m; } continue; }
		if (seen_restarts != b->nrestarts) { sprintf(m, "block %zu: %u restart offsets but %u point at entries", bi, b->nrestarts, seen_restarts); return m; }
	}
	/* index */
	if (o->index.n != o->nblocks) return "index entry count != block count";
	for (size_t i = 0; i < o->nblocks; i++) {
		const ic_ent *ik = &o->index.e[i]; const ic_block *b = &o->blocks[i];
		const ic_ent *last = &b->e[b->n - 1];
		if (ic_cmp(last->key, last->klen, ik->key, ik->klen) > 0) { sprintf(m, "index key %zu is below the block's last key", i); return m; }
		if (i + 1 < o->nblocks) { const ic_ent *nf = &o->blocks[i + 1].e[0]; if (ic_cmp(ik->key, ik->klen, nf->key, nf->klen) >= 0) { sprintf(m, "index key %zu is not below the next block's first key", i); return m; } }
		if (i && ic_cmp(o->blocks[i - 1].e[o->blocks[i - 1].n - 1].key, o->blocks[i - 1].e[o->blocks[i - 1].n - 1].klen, b->e[0].key, b->e[0].klen) >= 0) { sprintf(m, "keys not increasing across blocks %zu/%zu", i - 1, i); return m; }
	}
	/* block size rule, exactly as stated */
	if (block_size) for (size_t i = 0; i < o->nblocks; i++) {
		const ic_block *b = &o->blocks[i];
		if (b->n > 1 && b->size > block_size) { sprintf(m, "block %zu holds %zu entries and is %zu bytes > block size %zu", i, b->n, b->size, block_size); return m; }
		if (i + 1 < o->nblocks) {
			const ic_ent *nf = &o->blocks[i + 1].e[0];
			/* "would bring it to that size": the size the block would have had with the entry in it - a block whose entries pass UINT32_MAX stores 8-byte restart offsets */
			size_t wb_entries = b->size - 4 - (size_t) b->nrestarts * (b->size > UINT32_MAX ? 8 : 4) + 15 + nf->klen + nf->vlen;
			size_t wb_extra = (wb_entries > UINT32_MAX && b->size <= UINT32_MAX) ? (size_t) b->nrestarts * 4 : 0;
			if (b->size + 15 + nf->klen + nf->vlen + wb_extra < block_size) { sprintf(m, "block %zu (%zu bytes) closed early: next entry (%zu+%zu+15) would only bring it to %zu < %zu", i, b->size, nf->klen, nf->vlen, b->size + 15 + nf->klen + nf->vlen, block_size); return m; }
		}
	}
	return NULL;
}

/* ---------- encoder (used by C11 and for seed files) ---------- */
typedef struct { uint8_t *p; size_t n, cap; } ic_buf;
static void ic_buf_put(ic_buf *b, const void *d, size_t n) { if (b->n + n > b->cap) { b->cap = (b->n + n) * 2 + 64; b->p = realloc(b->p, b->cap); } if (n) memcpy(b->p + b->n, d, n); b->n += n; }
typedef struct { const uint8_t *k; size_t kl; const uint8_t *v; size_t vl; bool restart; uint32_t shared; } ic_enc_ent;
/* build an uncompressed block from entries with explicit restart flags and sharing amounts */
static void ic_enc_block(ic_buf *out, const ic_enc_ent *e, size_t n) {
	uint64_t rs[256]; uint32_t nr = 0; uint8_t tmp[10];
	size_t base = out->n;
	for (size_t i = 0; i < n; i++) {
		uint32_t sh = (i == 0 || e[i].restart) ? 0 : e[i].shared;
		if (i == 0 || e[i].restart) rs[nr++] = out->n - base;
		ic_buf_put(out, tmp, ic_putvar(tmp, sh));
		ic_buf_put(out, tmp, ic_putvar(tmp, e[i].kl - sh));
		ic_buf_put(out, tmp, ic_putvar(tmp, e[i].vl));
		ic_buf_put(out, e[i].k + sh, e[i].kl - sh);
		ic_buf_put(out, e[i].v, e[i].vl);
	}
	if (nr == 0) rs[nr++] = 0;
	for (uint32_t i = 0; i < nr; i++) { ic_put32(tmp, (uint32_t) rs[i]); ic_buf_put(out, tmp, 4); }
	ic_put32(tmp, nr); ic_buf_put(out, tmp, 4);
}
/* append a stored block (length prefix, crc, possibly compressed bytes) */
static int ic_enc_store(ic_buf *file, const uint8_t *raw, size_t rawlen, int comp, int version) {
	uint8_t *c = NULL; size_t cl = 0; uint8_t tmp[10];
	const uint8_t *st = raw; size_t sl = rawlen;
	if (comp != IC_NONE) { if (ic_compress(comp, raw, rawlen, &c, &cl)) return -1; st = c; sl = cl; }
	if (version == 1) { ic_put32(tmp, (uint32_t) sl); ic_buf_put(file, tmp, 4); } else ic_buf_put(file, tmp, ic_putvar(tmp, sl));
	ic_put32(tmp, ic_crc32c(st, sl)); ic_buf_put(file, tmp, 4);
	ic_buf_put(file, st, sl);
	free(c);
	return 0;
}
static void ic_enc_trailer(ic_buf *file, int version, const uint64_t fields[9]) {
	uint8_t t[512]; memset(t, 0, sizeof t);
	for (int i = 0; i < 9; i++) ic_put64(t + 8 * i, fields[i]);
	ic_put32(t + 508, version == 1 ? IC_MAGIC_V1 : IC_MAGIC_V2);
	ic_buf_put(file, t, 512);
}
#endif
