/* C17: mtbl_crc32c == standard CRC-32C on every buffer; hardware and table implementations agree. */
#include "vh.h"
#include <mtbl.h>

uint32_t my_crc32c_slicing(const uint8_t *, size_t);
uint32_t my_crc32c_sse42(const uint8_t *, size_t);
bool my_crc32c_sse42_supported(void);

/* bit-at-a-time reference, reflected Castagnoli polynomial 0x1EDC6F41 -> 0x82F63B78 */
static uint32_t ref_crc(const uint8_t *p, size_t n) {
	uint32_t c = 0xffffffffu;
	for (size_t i = 0; i < n; i++) {
		c ^= p[i];
		for (int k = 0; k < 8; k++) c = (c >> 1) ^ (0x82F63B78u & (0u - (c & 1)));
	}
	return ~c;
}
/* faster reference for the big sweeps: table generated here from the bit-wise definition */
static uint32_t rtab[256];
static uint32_t ref_crc_t(const uint8_t *p, size_t n) {
	uint32_t c = 0xffffffffu;
	for (size_t i = 0; i < n; i++) c = rtab[(c ^ p[i]) & 0xff] ^ (c >> 8);
	return ~c;
}

static int have_sse;
struct ccase { int fam; size_t len; int align; int pos; int val; };
static void fill(uint8_t *p, size_t n, int fam, int pos, int val) {
	switch (fam) {
	case 0: memset(p, 0, n); break;
	case 1: memset(p, 0xff, n); break;
	case 2: for (size_t i = 0; i < n; i++) p[i] = (uint8_t) i; break;
	case 3: { uint32_t x = 12345; for (size_t i = 0; i < n; i++) { x = x * 1664525u + 1013904223u; p[i] = x >> 24; } } break;
	case 4: for (size_t i = 0; i < n; i++) p[i] = "\x80\x01\x7f"[i % 3]; break;
	case 5: { uint32_t x = 777; for (size_t i = 0; i < n; i++) { x = x * 1103515245u + 12345u; p[i] = (x >> 16) & 3 ? x >> 20 : 0; } } break;
	case 9: for (size_t i = 0; i < n && i < 4; i++) p[i] = (uint8_t) ((uint32_t) pos >> (8 * i)); return;
	}
	if (pos >= 0 && (size_t) pos < n) p[pos] = (uint8_t) val;
}
static void render(char *b, size_t n, void *ctx) { struct ccase *c = ctx; snprintf(b, n, "crc:%d:%zu:%d:%d:%d", c->fam, c->len, c->align, c->pos, c->val); }

static void check(int fam, size_t len, int align, int pos, int val) {
	struct ccase c = { fam, len, align, pos, val };
	vh_case_begin(render, &c);
	uint8_t *base = malloc(len + align + (len + align == 0));
	uint8_t *p = base + align;
	fill(p, len, fam, pos, val);
	uint32_t want = ref_crc_t(p, len);
	uint32_t a = mtbl_crc32c(p, len);
	uint32_t s = my_crc32c_slicing(p, len);
	if (a != want) vh_violation("api", "mtbl_crc32c = %08x, standard CRC-32C = %08x", a, want);
	if (s != want) vh_violation("slicing", "table-driven implementation = %08x, standard CRC-32C = %08x", s, want);
	if (have_sse) {
		uint32_t h = my_crc32c_sse42(p, len);
		if (h != want) vh_violation("sse42", "hardware implementation = %08x, standard CRC-32C = %08x", h, want);
		if (h != s) vh_violation("differ", "hardware %08x != table-driven %08x", h, s);
		VH_COUNT("transitions", 1);
	}
	free(base);
	VH_COUNT("transitions", 2); VH_COUNT("cases", 1);
	vh_sig(vh_mix(vh_mix(len < 24 ? len : 24 + (len & 7), align), fam));
	vh_case_end();
}

int main(int argc, char **argv) {
	vh_init(argc, argv);
	for (uint32_t i = 0; i < 256; i++) { uint32_t c = i; for (int k = 0; k < 8; k++) c = (c >> 1) ^ (0x82F63B78u & (0u - (c & 1))); rtab[i] = c; }
	have_sse = my_crc32c_sse42_supported();
	vh_count("sse42_available", have_sse && vh_shard == 0);
	/* the reference itself: standard check value and agreement of the two reference forms */
	if (ref_crc((const uint8_t *) "123456789", 9) != 0xE3069283u || ref_crc_t((const uint8_t *) "123456789", 9) != 0xE3069283u) {
		printf("@error \"reference CRC does not produce the standard check value\"\n");
	}
	if (vh_case_arg) {
		int fam, align, pos, val; size_t len;
		if (sscanf(vh_case_arg, "crc:%d:%zu:%d:%d:%d", &fam, &len, &align, &pos, &val) == 5) check(fam, len, align, pos, val);
		return vh_finish();
	}
	uint64_t idx = 0;
	/* standard check value through the API */
	if (vh_shard == 0) {
		uint8_t *q = malloc(9); memcpy(q, "123456789", 9);
		if (mtbl_crc32c(q, 9) != 0xE3069283u) vh_violation_case("checkvalue", "crc:check", "mtbl_crc32c(\"123456789\") = %08x, standard check value e3069283", mtbl_crc32c(q, 9));
		free(q);
	}
	/* every length x alignment x family */
	size_t maxlen = vh_thorough ? 4200 : 1100;
	for (size_t len = 0; len <= maxlen; len++) {
		if (!vh_mine(idx++)) continue;
		for (int align = 0; align < 8; align++) for (int fam = 0; fam < 6; fam++) check(fam, len, align, -1, 0);
	}
	/* page-sized and power-of-two lengths (block-at-a-time fast paths): every multiple of 4096 up to 64 KiB and 2^k, each -1/0/+1 */
	for (int m = 1; m <= 16; m++) for (int d = -1; d <= 1; d++) { if (!vh_mine(idx++)) continue; for (int align = 0; align < 8; align += 7) for (int fam = 2; fam < 4; fam++) check(fam, (size_t) m * 4096 + d, align, -1, 0); }
	for (int k = 11; k <= 17; k++) for (int d = -1; d <= 1; d++) { if (!vh_mine(idx++)) continue; check(3, ((size_t) 1 << k) + d, 1, -1, 0); check(2, ((size_t) 1 << k) + d, 0, -1, 0); }
	if (vh_thorough) for (int k = 13; k <= 22; k++) for (int d = -1; d <= 1; d++) { if (!vh_mine(idx++)) continue; for (int align = 0; align < 8; align += 3) for (int fam = 2; fam < 4; fam++) check(fam, ((size_t) 1 << k) + d, align, -1, 0); }
	/* every byte value at every position, lengths 1..16 (thorough ..40), rest zero / rest ff, every alignment */
	int mlen = vh_thorough ? 40 : 16;
	for (int len = 1; len <= mlen; len++) for (int pos = 0; pos < len; pos++) {
		if (!vh_mine(idx++)) continue;
		for (int val = 0; val < 256; val++) for (int align = 0; align < 8; align++) { check(0, len, align, pos, val); check(1, len, align, pos, val); }
	}
	/* all 1- and 2-byte buffers (thorough: 3-byte) via family 0 with explicit content: reuse pos/val for the first byte and ramp for others */
	{
		int nb = vh_thorough ? 3 : 2;
		uint32_t total = 1u << (8 * nb);
		for (uint32_t x = 0; x < total; x++) {
			if (!vh_mine(x >> 10)) continue;
			for (int l = 1; l <= nb; l++) {
				if (l < nb && (x >> (8 * l))) continue;
				check(9, (size_t) l, 0, (int) x, 0);
			}
		}
	}
	if (vh_has_arg("four")) {
		/* thorough: EVERY 4-byte buffer through all three entry points (2^32 buffers) */
		uint8_t *p = malloc(4);
		for (uint64_t stripe = 0; stripe < 4096; stripe++) {
			if (!vh_mine(stripe)) continue;
			if (vh_time_up()) break;
			struct ccase c = { 9, 4, 0, (int) (stripe << 20), 0 }; vh_case_begin(render, &c);
			for (uint64_t x = stripe << 20; x < (stripe + 1) << 20; x++) {
				p[0] = x; p[1] = x >> 8; p[2] = x >> 16; p[3] = x >> 24;
				uint32_t want = ref_crc_t(p, 4);
				if (mtbl_crc32c(p, 4) != want || my_crc32c_slicing(p, 4) != want || (have_sse && my_crc32c_sse42(p, 4) != want)) { c.pos = (int) x; vh_violation("four", "a CRC implementation is wrong on the 4-byte buffer %s (standard CRC-32C %08x)", vh_hex(p, 4), want); break; }
			}
			VH_COUNT("cases", 1 << 20); VH_COUNT("transitions", 3 << 20); VH_COUNT("all_4_byte_buffers_stripes", 1);
			vh_case_end();
		}
		free(p);
	}
	if (vh_shard == 0) { vh_sample("crc:fam=lcg:len=1100:align=7"); vh_sample("crc:zeros:len=8:align=0:pos=3:val=255"); vh_sample("crc:bytes=0000..ffff"); }
	return vh_finish();
}
