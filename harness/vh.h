/* vh.h -- common runtime for the verification harnesses (header-only, one TU per harness).
 *
 * Protocol with the driver (stdout lines starting with '@'):
 *   @stat {"name":count,...}        summed over shards ("max_*" keys are max-ed)
 *   @sigs [u64,...]                 distinct structural signatures seen by this shard (driver unions them)
 *   @sample "..."                   a few explored cases, written out
 *   @violation {"key":..,"case":..,"what":..}
 *   @incomplete {}                  the wall-clock budget ended before the enumeration did
 *   @done {}                        normal end of shard
 */
#ifndef VH_H
#define VH_H
#ifndef _GNU_SOURCE
#define _GNU_SOURCE
#endif
#include <stdio.h>
#include <stdlib.h>
#include <string.h>
#include <stdint.h>
#include <stdbool.h>
#include <stdarg.h>
#include <setjmp.h>
#include <signal.h>
#include <unistd.h>
#include <time.h>
#include <errno.h>
#include <inttypes.h>
#include <sys/mman.h>
#include <sys/stat.h>
#include <sys/types.h>
#include <sys/wait.h>
#include <sys/time.h>
#include <fcntl.h>

static int vh_shard = 0, vh_nshards = 1;
static int vh_thorough = 0;
static const char *vh_case_arg = NULL;      /* --case: replay exactly this case */
static const char *vh_prop = "C??";
static time_t vh_deadline = 0;
static int vh_argc; static char **vh_argv;  /* harness specific positional args */
static uint64_t vh_nviol = 0;
static int vh_incomplete = 0;
static int vh_max_viol = 5;
static int vh_watchdog_s = 90;      /* a case that makes no progress for 90-180 s is reported as a hang */

/* ---------- counters ---------- */
#define VH_MAXSTAT 96
static struct { const char *name; uint64_t v; int ismax; } vh_stats[VH_MAXSTAT];
static int vh_nstats;
static uint64_t *vh_statp(const char *name, int ismax) {
	for (int i = 0; i < vh_nstats; i++) if (vh_stats[i].name == name || !strcmp(vh_stats[i].name, name)) return &vh_stats[i].v;
	if (vh_nstats == VH_MAXSTAT) { fprintf(stderr, "vh: too many stats\n"); abort(); }
	vh_stats[vh_nstats].name = name; vh_stats[vh_nstats].ismax = ismax; vh_stats[vh_nstats].v = 0;
	return &vh_stats[vh_nstats++].v;
}
static inline void vh_count(const char *name, uint64_t n) { *vh_statp(name, 0) += n; }
static inline void vh_max(const char *name, uint64_t v) { uint64_t *p = vh_statp(name, 1); if (v > *p) *p = v; }
/* fast path: cache the slot */
#define VH_COUNT(name, n) do { static uint64_t *_p; if (!_p) _p = vh_statp(name, 0); *_p += (n); } while (0)

/* ---------- hashing / signature set ---------- */
static inline uint64_t vh_mix(uint64_t h, uint64_t v) {
	h ^= v + 0x9e3779b97f4a7c15ULL + (h << 6) + (h >> 2);
	h *= 0xff51afd7ed558ccdULL; h ^= h >> 33;
	return h;
}
static inline uint64_t vh_hash(const void *p, size_t n, uint64_t h) {
	const uint8_t *b = (const uint8_t *) p;
	h = vh_mix(h, n);
	for (size_t i = 0; i < n; i++) { h ^= b[i]; h *= 0x100000001b3ULL; }
	return vh_mix(h, 0x1234567);
}
static uint64_t *vh_sigtab; static size_t vh_sigcap, vh_signum; static int vh_sig_overflow;
#define VH_SIG_MAX (1u << 20)
static void vh_sig(uint64_t s) {
	if (s == 0) s = 1;
	s &= 0x1fffffffffffffULL;   /* 53 bits: survives JSON/double round trips */
	if (s == 0) s = 1;
	if (vh_sigcap == 0) { vh_sigcap = 1 << 12; vh_sigtab = calloc(vh_sigcap, 8); }
	if (vh_signum * 2 >= vh_sigcap) {
		if (vh_signum >= VH_SIG_MAX) { vh_sig_overflow = 1; return; }
		size_t nc = vh_sigcap * 2; uint64_t *nt = calloc(nc, 8);
		for (size_t i = 0; i < vh_sigcap; i++) if (vh_sigtab[i]) { size_t j = vh_sigtab[i] * 0x9e3779b97f4a7c15ULL >> 20 & (nc - 1); while (nt[j]) j = (j + 1) & (nc - 1); nt[j] = vh_sigtab[i]; }
		free(vh_sigtab); vh_sigtab = nt; vh_sigcap = nc;
	}
	size_t j = s * 0x9e3779b97f4a7c15ULL >> 20 & (vh_sigcap - 1);
	while (vh_sigtab[j]) { if (vh_sigtab[j] == s) return; j = (j + 1) & (vh_sigcap - 1); }
	vh_sigtab[j] = s; vh_signum++;
}

/* a general purpose "seen" set of 64-bit state hashes for the BFS harnesses (returns true if new) */
typedef struct { uint64_t *t; size_t cap, n; } vh_set;
static bool vh_set_add(vh_set *s, uint64_t h) {
	if (h == 0) h = 0x5bd1e995;
	if (s->cap == 0) { s->cap = 1 << 10; s->t = calloc(s->cap, 8); }
	if (s->n * 2 >= s->cap) {
		size_t nc = s->cap * 2; uint64_t *nt = calloc(nc, 8);
		for (size_t i = 0; i < s->cap; i++) if (s->t[i]) { size_t j = (s->t[i] * 0x9e3779b97f4a7c15ULL >> 17) & (nc - 1); while (nt[j]) j = (j + 1) & (nc - 1); nt[j] = s->t[i]; }
		free(s->t); s->t = nt; s->cap = nc;
	}
	size_t j = (h * 0x9e3779b97f4a7c15ULL >> 17) & (s->cap - 1);
	while (s->t[j]) { if (s->t[j] == h) return false; j = (j + 1) & (s->cap - 1); }
	s->t[j] = h; s->n++; return true;
}
static void vh_set_free(vh_set *s) { free(s->t); s->t = NULL; s->cap = s->n = 0; }

/* ---------- JSON string escaping ---------- */
static void vh_json_str(FILE *f, const char *s) {
	fputc('"', f);
	for (; *s; s++) {
		unsigned char c = (unsigned char) *s;
		if (c == '"' || c == '\\') { fputc('\\', f); fputc(c, f); }
		else if (c < 0x20 || c >= 0x7f) fprintf(f, "\\u%04x", c);
		else fputc(c, f);
	}
	fputc('"', f);
}

/* ---------- current case breadcrumb (for crashes, hangs, sanitizer reports) ---------- */
typedef void (*vh_render_fn)(char *buf, size_t n, void *ctx);
static vh_render_fn vh_cur_render; static void *vh_cur_ctx;
static char vh_cur_buf[8192];
static const char *vh_cur_key = "";
static volatile uint64_t vh_case_seq;   /* watchdog: a periodic timer checks that this advances while a case is active */
static inline void vh_case_begin(vh_render_fn fn, void *ctx) { vh_cur_render = fn; vh_cur_ctx = ctx; vh_case_seq++; }
static inline void vh_case_end(void) { vh_cur_render = NULL; }
static const char *vh_cur_case(void) {
	if (vh_cur_render) { vh_cur_buf[0] = 0; vh_cur_render(vh_cur_buf, sizeof vh_cur_buf, vh_cur_ctx); return vh_cur_buf; }
	return "(no case active)";
}

static int vh_nsamples;
static void vh_sample(const char *fmt, ...) {
	if (vh_nsamples >= 4) return;
	vh_nsamples++;
	char b[4096]; va_list ap; va_start(ap, fmt); vsnprintf(b, sizeof b, fmt, ap); va_end(ap);
	printf("@sample "); vh_json_str(stdout, b); printf("\n");
}
#define VH_WANT_SAMPLE() (vh_nsamples < 4)

static void vh_emit_violation(const char *key, const char *cas, const char *what) {
	printf("@violation {\"key\":"); vh_json_str(stdout, key ? key : "");
	printf(",\"case\":"); vh_json_str(stdout, cas);
	printf(",\"what\":"); vh_json_str(stdout, what); printf("}\n");
	fflush(stdout);
}
/* report a violation for an explicit case string */
static void vh_violation_case(const char *key, const char *cas, const char *fmt, ...) {
	char w[4096]; va_list ap; va_start(ap, fmt); vsnprintf(w, sizeof w, fmt, ap); va_end(ap);
	vh_nviol++;
	if (vh_nviol <= (uint64_t) vh_max_viol || vh_case_arg) vh_emit_violation(key, cas, w);
	if (vh_case_arg) fprintf(stderr, "REPLAY: violation reproduced\n  case: %s\n  what: %s\n", cas, w);
}
/* report a violation for the current case (breadcrumb) */
#define vh_violation(key, ...) vh_violation_case((key), vh_cur_case(), __VA_ARGS__)

static int vh_time_up(void) {
	if (vh_case_arg) return 0;
	if (vh_deadline && time(NULL) >= vh_deadline) { vh_incomplete = 1; return 1; }
	return 0;
}
static inline int vh_too_many(void) { return vh_nviol >= (uint64_t) vh_max_viol && !vh_case_arg; }
static inline bool vh_mine(uint64_t idx) { return (idx % (uint64_t) vh_nshards) == (uint64_t) vh_shard; }

/* ---------- fatal outcomes ---------- */
static sigjmp_buf *vh_assert_jmp;       /* when set, library assert() failures longjmp here */
static char vh_assert_msg[512];
static volatile int vh_in_fatal;
static int vh_assert_exit_code;       /* when non-zero: a library assert() ends the process quietly with this status (expected-abort cases run in a child) */
static void vh_fatal_stop(void) __attribute__((noreturn));
static void vh_fatal_stop(void) {
	/* vh_assert_msg holds what happened */
	if (vh_assert_jmp) { sigjmp_buf *j = vh_assert_jmp; vh_assert_jmp = NULL; siglongjmp(*j, 1); }
	if (vh_assert_exit_code) _exit(vh_assert_exit_code);
	if (!vh_in_fatal) {
		vh_in_fatal = 1;
		char w[1024]; snprintf(w, sizeof w, "unexpected fatal %s", vh_assert_msg);
		vh_emit_violation(vh_cur_key, vh_cur_case(), w);
		fprintf(stderr, "vh: %s\n  case: %s\n", w, vh_cur_case());
	}
	_exit(76);
}
void __assert_fail(const char *expr, const char *file, unsigned int line, const char *func) {
	snprintf(vh_assert_msg, sizeof vh_assert_msg, "assertion `%s' failed at %s:%u (%s)", expr, file, line, func);
	vh_fatal_stop();
}
/* the library sources are compiled with -Dabort=vh_lib_abort -Dexit=vh_lib_exit: a library that stops the process by abort() or
 * exit() instead of assert() is treated exactly like a failed assertion ("the process stops"), not as a crash of the harness */
void vh_lib_abort(void) __attribute__((noreturn));
void vh_lib_exit(int code) __attribute__((noreturn));
void vh_lib_abort(void) { snprintf(vh_assert_msg, sizeof vh_assert_msg, "abort() called by the library"); vh_fatal_stop(); }
void vh_lib_exit(int code) { snprintf(vh_assert_msg, sizeof vh_assert_msg, "exit(%d) called by the library", code); vh_fatal_stop(); }
static void vh_fatal_signal(int sig) {
	if (sig == SIGALRM) {
		static uint64_t last_seq = (uint64_t) -1;
		if (!(vh_cur_render && vh_case_seq == last_seq)) { last_seq = vh_case_seq; return; }
	}
	if (!vh_in_fatal) {
		vh_in_fatal = 1;
		char w[256]; snprintf(w, sizeof w, sig == SIGALRM ? "case did not finish within its time limit (hang, signal %d)" : "fatal signal %d (memory fault outside every mapped object?)", sig);
		vh_emit_violation(vh_cur_key, vh_cur_case(), w);
		fprintf(stderr, "vh: %s\n  case: %s\n", w, vh_cur_case());
	}
	_exit(78);
}
/* AddressSanitizer calls this before it prints its report */
void __asan_on_error(void);
void __asan_on_error(void) {
	if (!vh_in_fatal) {
		vh_in_fatal = 1;
		vh_emit_violation(vh_cur_key, vh_cur_case(), "AddressSanitizer report (see stderr of the replay)");
		fprintf(stderr, "vh: AddressSanitizer error in case: %s\n", vh_cur_case());
	}
}

#define VH_TRY_ASSERT(jb) (vh_assert_jmp = &(jb), sigsetjmp((jb), 0) == 0)
#define VH_END_ASSERT() (vh_assert_jmp = NULL)

/* ---------- init / finish ---------- */
static void vh_init(int argc, char **argv) {
	static char *rest[64]; int nrest = 0;
	setvbuf(stdout, NULL, _IOFBF, 1 << 16);
	for (int i = 1; i < argc; i++) {
		if (!strcmp(argv[i], "--shard") && i + 1 < argc) { sscanf(argv[++i], "%d/%d", &vh_shard, &vh_nshards); }
		else if (!strcmp(argv[i], "--tier") && i + 1 < argc) { vh_thorough = !strcmp(argv[++i], "thorough"); }
		else if (!strcmp(argv[i], "--case") && i + 1 < argc) { vh_case_arg = argv[++i]; }
		else if (!strcmp(argv[i], "--prop") && i + 1 < argc) { vh_prop = argv[++i]; }
		else if (!strcmp(argv[i], "--deadline") && i + 1 < argc) { vh_deadline = (time_t) atoll(argv[++i]); }
		else if (nrest < 63) rest[nrest++] = argv[i];
	}
	vh_argc = nrest; vh_argv = rest;
	struct sigaction sa; memset(&sa, 0, sizeof sa); sa.sa_handler = vh_fatal_signal; sa.sa_flags = SA_RESTART;
	sigaction(SIGSEGV, &sa, NULL); sigaction(SIGBUS, &sa, NULL); sigaction(SIGALRM, &sa, NULL);
	sigaction(SIGFPE, &sa, NULL); sigaction(SIGILL, &sa, NULL);
	signal(SIGPIPE, SIG_IGN);
	struct itimerval itv; memset(&itv, 0, sizeof itv); itv.it_interval.tv_sec = itv.it_value.tv_sec = vh_watchdog_s;
	setitimer(ITIMER_REAL, &itv, NULL);
}
static const char *vh_arg(int i, const char *dflt) { return i < vh_argc ? vh_argv[i] : dflt; }
static bool vh_has_arg(const char *s) { for (int i = 0; i < vh_argc; i++) if (!strcmp(vh_argv[i], s)) return true; return false; }

static int vh_finish(void) {
	printf("@stat {");
	for (int i = 0; i < vh_nstats; i++) {
		char nm[128]; snprintf(nm, sizeof nm, "%s%s", vh_stats[i].ismax && strncmp(vh_stats[i].name, "max_", 4) ? "max_" : "", vh_stats[i].name);
		printf("%s\"%s\":%" PRIu64, i ? "," : "", nm, vh_stats[i].v);
	}
	printf("}\n");
	printf("@sigs [");
	int first = 1;
	for (size_t i = 0; i < vh_sigcap; i++) if (vh_sigtab[i]) { printf("%s%" PRIu64, first ? "" : ",", vh_sigtab[i]); first = 0; }
	printf("]\n");
	if (vh_sig_overflow) printf("@error \"signature table overflow (distinct count is a lower bound)\"\n");
	if (vh_incomplete) printf("@incomplete {}\n");
	printf("@done {}\n");
	fflush(stdout);
	if (vh_case_arg) fprintf(stderr, vh_nviol ? "REPLAY RESULT: violation reproduced\n" : "REPLAY RESULT: no violation on this tree\n");
	return vh_nviol ? 1 : 0;
}

/* ---------- batches in forked children (for cases that leak or may crash: the child reports its own counters) ---------- */
static void vh_emit_stats(void) {
	printf("@stat {");
	for (int i = 0; i < vh_nstats; i++) {
		char nm[128]; snprintf(nm, sizeof nm, "%s%s", vh_stats[i].ismax && strncmp(vh_stats[i].name, "max_", 4) ? "max_" : "", vh_stats[i].name);
		printf("%s\"%s\":%" PRIu64, i ? "," : "", nm, vh_stats[i].v);
	}
	printf("}\n@sigs [");
	int first = 1;
	for (size_t i = 0; i < vh_sigcap; i++) if (vh_sigtab[i]) { printf("%s%" PRIu64, first ? "" : ",", vh_sigtab[i]); first = 0; }
	printf("]\n");
}
/* returns true in the child (fresh counters); the parent blocks until the child is done and returns false */
static bool vh_batch_fork(void) {
	fflush(stdout);
	pid_t pid = fork();
	if (pid < 0) { perror("fork"); abort(); }
	if (pid == 0) {
		for (int i = 0; i < vh_nstats; i++) vh_stats[i].v = 0;
		if (vh_sigtab) memset(vh_sigtab, 0, vh_sigcap * 8); vh_signum = 0;
		vh_nsamples = 4;
		return true;
	}
	int st = 0; while (waitpid(pid, &st, 0) < 0 && errno == EINTR) {}
	if (WIFEXITED(st) && WEXITSTATUS(st) == 0) return false;
	if (WIFEXITED(st) && WEXITSTATUS(st) == 1) { vh_nviol++; return false; }           /* child reported violations itself */
	if (WIFEXITED(st) && WEXITSTATUS(st) >= 75 && WEXITSTATUS(st) <= 79) { vh_nviol++; return false; }   /* fatal, already reported with its case */
	{ char w[128]; snprintf(w, sizeof w, "batch child ended abnormally (status 0x%x)", st); vh_nviol++; vh_emit_violation("crash", vh_cur_case(), w); }
	return false;
}
static void vh_batch_exit(void) { vh_emit_stats(); if (vh_incomplete) printf("@incomplete {}\n"); fflush(stdout); _exit(vh_nviol ? 1 : 0); }

/* ---------- byte strings ---------- */
typedef struct { const uint8_t *p; size_t n; } vh_bs;
static inline int vh_bscmp(const uint8_t *a, size_t al, const uint8_t *b, size_t bl) {
	size_t m = al < bl ? al : bl;
	for (size_t i = 0; i < m; i++) if (a[i] != b[i]) return a[i] < b[i] ? -1 : 1;
	return al < bl ? -1 : al > bl ? 1 : 0;
}
static inline bool vh_has_prefix(const uint8_t *k, size_t kl, const uint8_t *p, size_t pl) {
	if (pl > kl) return false;
	for (size_t i = 0; i < pl; i++) if (k[i] != p[i]) return false;
	return true;
}
/* hex rendering into a ring of static buffers ("" renders as "e" for epsilon) */
static const char *vh_hex(const uint8_t *p, size_t n) {
	static char ring[16][160]; static int ri;
	char *b = ring[ri++ & 15];
	if (n == 0) { strcpy(b, "e"); return b; }
	size_t lim = 64, o = 0;
	for (size_t i = 0; i < n && i < lim; i++) o += sprintf(b + o, "%02x", p[i]);
	if (n > lim) sprintf(b + o, "..(%zu)", n);
	return b;
}
static size_t vh_unhex(const char *s, uint8_t *out, size_t cap) {
	if (!strcmp(s, "e")) return 0;
	size_t n = 0;
	while (s[0] && s[1] && n < cap) { unsigned v; sscanf(s, "%2x", &v); out[n++] = (uint8_t) v; s += 2; }
	return n;
}

#endif
