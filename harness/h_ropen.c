/* C19: mtbl_reader_init / mtbl_reader_init_fd on damaged or arbitrary bytes never read outside the file.
 * reader.c is compiled with -Dmmap=vf_mmap -Dmunmap=vf_munmap: the file's bytes are placed so that they end exactly at a
 * PROT_NONE guard region; reader.c, block.c and metadata.c are compiled with the decode primitives renamed to checking
 * wrappers that verify [p, p+n) lies inside the file before delegating. Structured, exhaustive mutation families. */
#include "tbl.h"
#include <sys/syscall.h>

/* ---- mapping seam ---- */
#define GUARD (1u << 20)
static uint8_t *res_base; static size_t res_len; static uint8_t *file_base; static size_t file_len;
static char oob_msg[256];
void *vf_mmap(void *addr, size_t len, int prot, int flags, int fd, off_t off);
int vf_munmap(void *addr, size_t len);
static int inject_mmap_failure;
void *vf_mmap(void *addr, size_t len, int prot, int flags, int fd, off_t off) {
	/* be faithful to the environment first: if the real mapping would fail (directory, descriptor not readable, injected fault),
	 * the library must see MAP_FAILED */
	if (inject_mmap_failure) { errno = ENOMEM; return MAP_FAILED; }
	{ void *probe = mmap(addr, len, prot, flags, fd, off); if (probe == MAP_FAILED) return MAP_FAILED; munmap(probe, len); }
	size_t page = 4096, data_pages = (len + page - 1) / page * page;
	if (data_pages == 0) data_pages = page;
	res_len = GUARD + data_pages + GUARD;
	res_base = mmap(NULL, res_len, PROT_NONE, MAP_PRIVATE | MAP_ANONYMOUS | MAP_NORESERVE, -1, 0);
	if (res_base == MAP_FAILED) return MAP_FAILED;
	uint8_t *region = res_base + GUARD;
	mprotect(region, data_pages, PROT_READ | PROT_WRITE);
	memset(region, 0xEE, data_pages);
	file_base = region + data_pages - len; file_len = len;      /* last byte of the file is the last byte before the guard */
	size_t got = 0; while (got < len) { ssize_t r = pread(fd, file_base + got, len - got, got); if (r <= 0) break; got += r; }
	mprotect(region, data_pages, PROT_READ);
	return file_base;
}
int vf_munmap(void *addr, size_t len) {
	(void) len;
	if (addr == file_base && res_base) { munmap(res_base, res_len); res_base = NULL; file_base = NULL; file_len = 0; return 0; }
	return munmap(addr, len);
}
static void drop_mapping(void) { if (res_base) { munmap(res_base, res_len); res_base = NULL; file_base = NULL; file_len = 0; } }

/* ---- checking wrappers (active in reader.c, block.c, metadata.c) ---- */
static bool inside(const uint8_t *p, size_t n, const char *who) {
	if (file_base && p >= file_base && n <= file_len && p <= file_base + file_len - n) return true;
	if (!oob_msg[0]) snprintf(oob_msg, sizeof oob_msg, "%s reads %zu bytes at file offset %lld of a %zu byte file", who, n, file_base ? (long long) (p - file_base) : -1LL, file_len);
	return false;
}
uint32_t ck_fixed_decode32(const uint8_t *p); uint64_t ck_fixed_decode64(const uint8_t *p);
size_t ck_varint_decode64(const uint8_t *p, uint64_t *v); size_t ck_varint_decode32(const uint8_t *p, uint32_t *v); uint32_t ck_crc32c(const uint8_t *p, size_t n);
uint32_t ck_fixed_decode32(const uint8_t *p) { return inside(p, 4, "fixed_decode32") ? mtbl_fixed_decode32(p) : 0; }
uint64_t ck_fixed_decode64(const uint8_t *p) { return inside(p, 8, "fixed_decode64") ? mtbl_fixed_decode64(p) : 0; }
size_t ck_varint_decode64(const uint8_t *p, uint64_t *v) {
	/* the decoder stops at the first byte without continuation bit, at most 10 bytes */
	size_t n = 0; while (n < 10) { if (!inside(p + n, 1, "varint_decode64")) { *v = 0; return 0; } if (!(p[n] & 0x80)) break; n++; }
	return mtbl_varint_decode64(p, v);
}
size_t ck_varint_decode32(const uint8_t *p, uint32_t *v) {
	size_t n = 0; while (n < 5) { if (!inside(p + n, 1, "varint_decode32")) { *v = 0; return 0; } if (!(p[n] & 0x80)) break; n++; }
	return mtbl_varint_decode32(p, v);
}
uint32_t ck_crc32c(const uint8_t *p, size_t n) { return inside(p, n, "crc32c") ? mtbl_crc32c(p, n) : 0; }

/* ---- one case ---- */
typedef struct { const char *fam; int seed; long a; long b; int verify; int viafd; const uint8_t *bytes; size_t len; } ocase;
static void render(char *b, size_t n, void *ctx) { ocase *c = ctx; snprintf(b, n, "O:%s:%d:%ld:%ld:%d:%d", c->fam, c->seed, c->a, c->b, c->verify, c->viafd); }
static char g_path[600];
static uint64_t n_null, n_reader, n_assert;

static void try_open(ocase *c) {
	vh_case_begin(render, c);
	oob_msg[0] = 0;
	int fd = tbl_fd_from_bytes(c->bytes, c->len);
	struct mtbl_reader_options *ro = mtbl_reader_options_init(); mtbl_reader_options_set_verify_checksums(ro, c->verify);
	struct mtbl_reader *r = NULL; sigjmp_buf jb;
	int lowfd = dup(0); close(lowfd);
	if (VH_TRY_ASSERT(jb)) {
		if (c->viafd) r = mtbl_reader_init_fd(fd, ro);
		else { snprintf(g_path, sizeof g_path, "/proc/self/fd/%d", fd); r = mtbl_reader_init(g_path, ro); }
		VH_END_ASSERT();
		if (r) { n_reader++; mtbl_reader_destroy(&r); } else n_null++;
	} else { n_assert++; drop_mapping(); syscall(SYS_close_range, (unsigned) lowfd, ~0U, 0); }
	mtbl_reader_options_destroy(&ro);
	close(fd);
	if (oob_msg[0]) vh_violation("out-of-file-read", "%s", oob_msg);
	if (res_base) { vh_violation("mapping-leak", "reader init returned without unmapping the file"); drop_mapping(); }
	VH_COUNT("cases", 1); VH_COUNT("transitions", 1);
	vh_case_end();
}
static void both(ocase *c) { for (int v = 0; v < 2; v++) for (int f = 0; f < 2; f++) { c->verify = v; c->viafd = f; try_open(c); } }

/* ---- seeds ---- */
#define NSEED 6
static uint8_t *seed_b[NSEED]; static size_t seed_l[NSEED];
static void make_seeds(void) {
	for (int s = 0; s < NSEED; s++) {
		int nblocks = s == 0 ? 0 : (s == 1 || s == 4) ? 1 : 3; size_t prefix = (s == 3 || s == 5) ? 13 : 0; int v1 = (s >= 4);
		if (!v1) {
			tkv e[3]; uint8_t k[3][2]; for (int i = 0; i < nblocks; i++) { k[i][0] = 'k'; k[i][1] = '0' + i; e[i].k = k[i]; e[i].kl = 2; e[i].vl = 600; e[i].v = tbl_val(i + 1, 600); }
			tcfg cfg = { 0 }; cfg.block_size = 1024; cfg.prefix = prefix; cfg.comp = s == 2 ? 3 : 0;
			int fd = tbl_write(&cfg, e, nblocks, NULL); seed_b[s] = tbl_slurp(fd, &seed_l[s]); close(fd);
		} else {
			/* format v1 seeds from the independent encoder */
			ic_buf f = { 0 }; for (size_t i = 0; i < prefix; i++) { uint8_t b = tbl_prefix_byte(i); ic_buf_put(&f, &b, 1); }
			ic_buf idx = { 0 }; ic_enc_ent ie[3]; uint8_t offv[3][10]; uint8_t k[3][2]; uint8_t *vals[3]; uint64_t bytes_data = 0;
			for (int i = 0; i < nblocks; i++) {
				k[i][0] = 'k'; k[i][1] = '0' + i; vals[i] = tbl_val(i + 1, 40);
				ic_enc_ent e = { k[i], 2, vals[i], 40, true, 0 }; ic_buf blk = { 0 }; ic_enc_block(&blk, &e, 1);
				uint64_t off = f.n; ic_enc_store(&f, blk.p, blk.n, IC_NONE, 1); bytes_data += f.n - off; free(blk.p);
				ie[i] = (ic_enc_ent) { k[i], 2, offv[i], ic_putvar(offv[i], off), true, 0 };
			}
			ic_enc_block(&idx, ie, nblocks);
			uint64_t ioff = f.n; ic_enc_store(&f, idx.p, idx.n, IC_NONE, 1);
			uint64_t fields[9] = { ioff, 8192, 0, (uint64_t) nblocks, (uint64_t) nblocks, bytes_data, f.n - ioff, 2u * nblocks, 40u * nblocks };
			ic_enc_trailer(&f, 1, fields);
			seed_b[s] = f.p; seed_l[s] = f.n; free(idx.p);
		}
		/* every seed must open cleanly: otherwise the families below are vacuous */
		ocase c = { "seed", s, 0, 0, 1, 1, seed_b[s], seed_l[s] };
		uint64_t before = n_reader; try_open(&c);
		if (n_reader == before) printf("@error \"ropen: seed %d does not open\"\n", s);
	}
}
static uint64_t g_idx;
#define MINE() vh_mine(g_idx++)

int main(int argc, char **argv) {
	vh_init(argc, argv);
	make_seeds();
	if (vh_case_arg) {
		/* replay needs the family generator: re-run the family with a filter */
	}
	const char *only = vh_case_arg;
	char want[128] = ""; if (only) { snprintf(want, sizeof want, "%s", only); char *q = strrchr(want, ':'); if (q) { *q = 0; q = strrchr(want, ':'); if (q) *q = 0; } }   /* strip :verify:viafd */
#define RUN(c) do { if (only) { char tmp[160]; ocase *_c = &(c); _c->verify = 0; _c->viafd = 0; render(tmp, sizeof tmp, _c); char *q = strrchr(tmp, ':'); *q = 0; q = strrchr(tmp, ':'); *q = 0; if (!strcmp(tmp, want)) both(_c); } else both(&(c)); } while (0)
	uint8_t *buf = malloc(1 << 16);
	for (int s = 0; s < NSEED; s++) {
		const uint8_t *sb = seed_b[s]; size_t sl = seed_l[s];
		uint64_t ioff = ic_le64(sb + sl - 512);
		/* 1. every truncation length */
		for (size_t l = 0; l <= sl; l++) { if (!only && !MINE()) continue; ocase c = { "trunc", s, (long) l, 0, 0, 0, sb, l }; RUN(c); }
		vh_sig(vh_mix(1, s));
		/* 2. every single-byte replacement in the trailer fields, the magic and the first 12 bytes of the index block */
		for (int region = 0; region < 3; region++) {
			size_t start = region == 0 ? sl - 512 : region == 1 ? sl - 4 : ioff, cnt = region == 0 ? 72 : region == 1 ? 4 : 12;
			for (size_t i = 0; i < cnt; i++) for (int v = 0; v < 256; v++) {
				if (sb[start + i] == v) continue;
				if (!only && !MINE()) continue;
				memcpy(buf, sb, sl); buf[start + i] = (uint8_t) v;
				ocase c = { region == 0 ? "trailer-byte" : region == 1 ? "magic-byte" : "index-byte", s, (long) i, v, 0, 0, buf, sl }; RUN(c);
			}
		}
		vh_sig(vh_mix(2, s));
		/* 3. index offset field: every value 0..size+600 and boundary values */
		{
			static const uint64_t big[] = { 0xffffffffULL, 0x100000000ULL, 0x7fffffffffffffffULL, 0x8000000000000000ULL };
			for (uint64_t v = 0; v <= sl + 600; v++) { if (!only && !MINE()) continue; memcpy(buf, sb, sl); ic_put64(buf + sl - 512, v); ocase c = { "index-offset", s, (long) v, 0, 0, 0, buf, sl }; RUN(c); }
			for (unsigned i = 0; i < 4; i++) for (int d = -2; d <= 2; d++) { if (!only && !MINE()) continue; memcpy(buf, sb, sl); ic_put64(buf + sl - 512, big[i] + d); ocase c = { "index-offset-big", s, (long) i, d, 0, 0, buf, sl }; RUN(c); }
			for (int k = -40; k <= 40; k++) for (int w = 0; w < 3; w++) { if (!only && !MINE()) continue; uint64_t v = (w == 0 ? 0ULL : w == 1 ? (0ULL - 512 - 13) : (0ULL - 512 - 16)) + (uint64_t) (int64_t) k; memcpy(buf, sb, sl); ic_put64(buf + sl - 512, v); ocase c = { "index-offset-wrap", s, k, w, 0, 0, buf, sl }; RUN(c); }
		}
		vh_sig(vh_mix(3, s));
		/* 4. index length prefix: every 1- and 2-byte varint, longer varints over boundary values (v1: 32-bit values) */
		{
			int v1 = ic_le32(sb + sl - 4) == IC_MAGIC_V1;
			if (!v1) {
				for (uint32_t v = 0; v < 16384; v++) { if (!only && !MINE()) continue; memcpy(buf, sb, sl); ic_putvar(buf + ioff, v < 128 ? v : v); ocase c = { "index-len-varint", s, (long) v, 0, 0, 0, buf, sl }; RUN(c); }
				/* non-canonical 2-byte forms of small values */
				for (uint32_t v = 0; v < 128; v++) { if (!only && !MINE()) continue; memcpy(buf, sb, sl); buf[ioff] = 0x80 | v; buf[ioff + 1] = 0; ocase c = { "index-len-overlong", s, (long) v, 0, 0, 0, buf, sl }; RUN(c); }
				static const uint64_t B[] = { 16383, 16384, 16385, (1u << 21) - 1, 1u << 21, (1u << 28) - 1, 1u << 28, 0x7fffffffULL, 0x80000000ULL, 0xffffffffULL, 0x100000000ULL, (1ULL << 35) - 1, 1ULL << 35, 1ULL << 42, 1ULL << 49, 1ULL << 56, (1ULL << 63) - 1, 1ULL << 63, ~0ULL - 600, ~0ULL - 512, ~0ULL - 17, ~0ULL - 13, ~0ULL - 4, ~0ULL - 1, ~0ULL };
				for (unsigned i = 0; i < sizeof B / sizeof *B; i++) for (int d = -1; d <= 1; d++) { if (!only && !MINE()) continue; memcpy(buf, sb, sl); ic_putvar(buf + ioff, B[i] + d); ocase c = { "index-len-big", s, (long) i, d, 0, 0, buf, sl }; RUN(c); }
				/* file-relative sizes: everything around "exactly fits" */
				for (long d = -20; d <= 600; d++) { if (!only && !MINE()) continue; uint64_t v = sl - 512 - ioff + d; memcpy(buf, sb, sl); ic_putvar(buf + ioff, v); ocase c = { "index-len-fit", s, d, 0, 0, 0, buf, sl }; RUN(c); }
				/* unterminated varint (all continuation bytes) */
				for (int n = 1; n <= 12; n++) { if (!only && !MINE()) continue; memcpy(buf, sb, sl); memset(buf + ioff, 0x80, n); ocase c = { "index-len-unterminated", s, n, 0, 0, 0, buf, sl }; RUN(c); }
			} else {
				static const uint32_t B[] = { 0, 1, 7, 8, 12, 13, 16, 100, 65535, 65536, 0x7fffffff, 0x80000000u, 0xfffffdffu, 0xfffffff0u, 0xffffffffu };
				for (unsigned i = 0; i < sizeof B / sizeof *B; i++) for (int d = -1; d <= 1; d++) { if (!only && !MINE()) continue; memcpy(buf, sb, sl); ic_put32(buf + ioff, B[i] + d); ocase c = { "index-len-v1", s, (long) i, d, 0, 0, buf, sl }; RUN(c); }
				for (long d = -20; d <= 600; d++) { if (!only && !MINE()) continue; memcpy(buf, sb, sl); ic_put32(buf + ioff, (uint32_t) (sl - 512 - ioff + d)); ocase c = { "index-len-fit-v1", s, d, 0, 0, 0, buf, sl }; RUN(c); }
			}
		}
		vh_sig(vh_mix(4, s));
		/* 5. restart count of the index block (last 4 bytes before the trailer) */
		{
			static const uint32_t R[] = { 0, 1, 2, 3, 4, 100, 0x3fffffff, 0x40000000, 0x7fffffff, 0x80000000u, 0xfffffffeu, 0xffffffffu };
			for (unsigned i = 0; i < sizeof R / sizeof *R; i++) { if (!only && !MINE()) continue; memcpy(buf, sb, sl); ic_put32(buf + sl - 512 - 4, R[i]); ocase c = { "index-restarts", s, (long) i, 0, 0, 0, buf, sl }; RUN(c); }
		}
		vh_sig(vh_mix(5, s));
		/* 5b. two fields at once: the index offset moved so that 0..40 bytes remain before the trailer, and at that offset a length prefix
		 *     from the boundary set (v2: varints of every width up to 10 bytes; v1: 32-bit values). The bound checks on the index block are
		 *     sums and differences of "space left", "width of the prefix" and "length", so a prefix that is as wide as the space itself is a
		 *     case that neither the offset family nor the length family alone produces (seed R6-C19). */
		{
			int v1 = ic_le32(sb + sl - 4) == IC_MAGIC_V1;
			static const uint64_t B2[] = { 0, 1, 2, 3, 4, 5, 8, 9, 12, 13, 14, 16, 17, 20, 40, 127, 128, 16383, 16384, (1u << 21) - 1, 1u << 21, (1u << 28) - 1, 1u << 28, 0x7fffffffULL, 0xffffffffULL, 0x100000000ULL, (1ULL << 35) - 1, 1ULL << 35, (1ULL << 42) - 1, 1ULL << 42, (1ULL << 49) - 1, 1ULL << 49, (1ULL << 56) - 1, 1ULL << 56, (1ULL << 63) - 1, 1ULL << 63, (1ULL << 63) + 1, ~0ULL - 600, ~0ULL - 512, ~0ULL - 40, ~0ULL - 17, ~0ULL - 14, ~0ULL - 13, ~0ULL - 12, ~0ULL - 9, ~0ULL - 5, ~0ULL - 4, ~0ULL - 3, ~0ULL - 1, ~0ULL };
			for (size_t space = 0; space <= 40 && space + 512 <= sl; space++) for (unsigned i = 0; i < sizeof B2 / sizeof *B2; i++) {
				if (!only && !MINE()) continue;
				size_t o = sl - 512 - space; uint8_t enc[10]; size_t el = v1 ? 4 : ic_putvar(enc, B2[i]); if (v1) ic_put32(enc, (uint32_t) B2[i]);
				memcpy(buf, sb, sl); memcpy(buf + o, enc, el); ic_put64(buf + sl - 512, o);
				ocase c = { "offset-and-len", s, (long) space, (long) i, 0, 0, buf, sl }; RUN(c);
			}
		}
		vh_sig(vh_mix(55, s));
	}
	/* 6. tiny synthetic files: every length <= 512+16 ending in either magic, bodies 00 / ff / 80 */
	for (int magic = 0; magic < 2; magic++) for (int fill = 0; fill < 3; fill++) for (size_t l = 508; l <= 512 + 16; l++) {
		if (!only && !MINE()) continue;
		memset(buf, fill == 0 ? 0x00 : fill == 1 ? 0xff : 0x80, l); if (l >= 4) ic_put32(buf + l - 4, magic ? IC_MAGIC_V1 : IC_MAGIC_V2);
		ocase c = { "synthetic", magic, (long) l, fill, 0, 0, buf, l }; RUN(c);
	}
	vh_sig(vh_mix(6, 0));
	/* 8. the mapping itself fails: injected ENOMEM on every seed, a directory opened by path, a descriptor that is not readable */
	for (int s = 0; s < NSEED; s++) { if (!only && !MINE()) continue; inject_mmap_failure = 1; ocase c = { "mmap-enomem", s, 0, 0, 0, 0, seed_b[s], seed_l[s] }; RUN(c); inject_mmap_failure = 0; }
	if (only ? !strncmp(only, "O:mmap-env", 10) : vh_shard == 0) {
		static ocase c = { "mmap-env", 0, 0, 0, 0, 0, NULL, 0 }; vh_case_begin(render, &c); oob_msg[0] = 0;
		sigjmp_buf jb; struct mtbl_reader *r = NULL;
		if (VH_TRY_ASSERT(jb)) { r = mtbl_reader_init("/proc/self", NULL); VH_END_ASSERT(); if (r) { vh_violation("dir-opened", "mtbl_reader_init on a directory returned a reader"); mtbl_reader_destroy(&r); } } else drop_mapping();
		if (VH_TRY_ASSERT(jb)) { r = mtbl_reader_init("/usr", NULL); VH_END_ASSERT(); if (r) mtbl_reader_destroy(&r); } else drop_mapping();
		{ char p[300]; snprintf(p, sizeof p, "%s/wronly.%d", getenv("VERIF_SCRATCH_DIR") ? getenv("VERIF_SCRATCH_DIR") : "/var/tmp", (int) getpid()); int fd = open(p, O_CREAT | O_WRONLY | O_TRUNC, 0600); if (fd >= 0) { if (write(fd, seed_b[1], seed_l[1]) < 0) {} if (VH_TRY_ASSERT(jb)) { r = mtbl_reader_init_fd(fd, NULL); VH_END_ASSERT(); if (r) mtbl_reader_destroy(&r); } else drop_mapping(); close(fd); unlink(p); } }
		if (oob_msg[0]) vh_violation("out-of-file-read", "after a failed mapping: %s", oob_msg);
		VH_COUNT("cases", 3); VH_COUNT("transitions", 3); VH_COUNT("mmap_env_cases", 3);
		vh_case_end();
	}
	vh_sig(vh_mix(8, 0));
	/* 7. a fixed family of pseudo-random files (deterministic generator, not sampled at run time): random bodies with either magic,
	 *    and valid seeds whose whole trailer (or whose index block) is overwritten with generator output */
	for (int fam = 0; fam < 3; fam++) for (uint32_t id = 0; id < (vh_thorough ? 300000u : 3000u); id++) {
		if (!only && !MINE()) continue;
		uint32_t x = id * 2654435761u + 97 * fam + 1; size_t l;
		#define NEXT() (x ^= x << 13, x ^= x >> 17, x ^= x << 5, x)
		if (fam == 0) { l = 512 + NEXT() % 700; for (size_t i = 0; i < l; i++) buf[i] = (uint8_t) (NEXT() >> 9); ic_put32(buf + l - 4, (id & 1) ? IC_MAGIC_V1 : IC_MAGIC_V2); if (id & 2) for (int q = 0; q < 9; q++) if (NEXT() & 1) ic_put64(buf + l - 512 + 8 * q, NEXT() % (2 * l)); }
		else { const uint8_t *sb = seed_b[id % NSEED]; l = seed_l[id % NSEED]; memcpy(buf, sb, l); uint64_t ioff = ic_le64(sb + l - 512); if (fam == 1) { for (size_t i = l - 512; i < l - 4; i++) if (NEXT() % 3 == 0) buf[i] = (uint8_t) (NEXT() >> 11); } else { for (size_t i = ioff; i < l - 512; i++) if (NEXT() % 4 == 0) buf[i] = (uint8_t) (NEXT() >> 11); } }
		ocase c = { fam == 0 ? "prng-file" : fam == 1 ? "prng-trailer" : "prng-index", (int) id, fam, 0, 0, 0, buf, l }; RUN(c);
	}
	vh_sig(vh_mix(7, 0));
	free(buf);
	vh_count("returned_null", n_null); vh_count("returned_reader", n_reader); vh_count("stopped_on_assertion", n_assert); vh_count("states", n_null + n_reader + n_assert);
	if (vh_shard == 0) { vh_sample("O:index-len-fit:2:5:0:1:0 = seed 2 (3 blocks, lz4), index length prefix set to (space before trailer)+5, verify_checksums on, mtbl_reader_init"); vh_sample("O:trunc:3:700:0:0:1"); }
	return vh_finish();
}
