/* fold_dso.c -- merge function DSO for src/mtbl_merge (MTBL_MERGE_DSO, MTBL_MERGE_FUNC_PREFIX=vfold): returns "(v0+v1)". */
#include <stdint.h>
#include <stdlib.h>
#include <string.h>
void vfold_func(void *clos, const uint8_t *key, size_t kl, const uint8_t *v0, size_t l0, const uint8_t *v1, size_t l1, uint8_t **out, size_t *outl);
void *vfold_init_func(void);
void vfold_free_func(void *clos);
void vfold_func(void *clos, const uint8_t *key, size_t kl, const uint8_t *v0, size_t l0, const uint8_t *v1, size_t l1, uint8_t **out, size_t *outl) {
	(void) clos; (void) key; (void) kl;
	*outl = l0 + l1 + 3; *out = malloc(*outl);
	(*out)[0] = '('; memcpy(*out + 1, v0, l0); (*out)[1 + l0] = '+'; memcpy(*out + 2 + l0, v1, l1); (*out)[2 + l0 + l1] = ')';
}
void *vfold_init_func(void) { return malloc(8); }
void vfold_free_func(void *clos) { free(clos); }
