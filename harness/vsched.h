/* vsched.h -- controlled scheduler seam.  Force-included (-include vsched.h) into mtbl/threadpool.c and included by the
 * harness: every pthread operation the code under test performs is routed to the deterministic scheduler in vsched.c. */
#ifndef VSCHED_H
#define VSCHED_H
#include <pthread.h>
#include <stdint.h>
#include <stdbool.h>

int vs_create(pthread_t *t, const pthread_attr_t *a, void *(*fn)(void *), void *arg);
int vs_join(pthread_t t, void **ret);
int vs_mutex_init(pthread_mutex_t *m, const pthread_mutexattr_t *a);
int vs_mutex_destroy(pthread_mutex_t *m);
int vs_mutex_lock(pthread_mutex_t *m);
int vs_mutex_unlock(pthread_mutex_t *m);
int vs_cond_init(pthread_cond_t *c, const pthread_condattr_t *a);
int vs_cond_destroy(pthread_cond_t *c);
int vs_cond_wait(pthread_cond_t *c, pthread_mutex_t *m);
int vs_cond_signal(pthread_cond_t *c);
int vs_cond_broadcast(pthread_cond_t *c);

#ifndef VSCHED_IMPL
#define pthread_create vs_create
#define pthread_join vs_join
#define pthread_mutex_init vs_mutex_init
#define pthread_mutex_destroy vs_mutex_destroy
#define pthread_mutex_lock vs_mutex_lock
#define pthread_mutex_unlock vs_mutex_unlock
#define pthread_cond_init vs_cond_init
#define pthread_cond_destroy vs_cond_destroy
#define pthread_cond_wait vs_cond_wait
#define pthread_cond_signal vs_cond_signal
#define pthread_cond_broadcast vs_cond_broadcast
#endif

/* ---- explorer interface ---- */
#define VS_MAXPTS 4096
#define VS_MAXTHR 24
typedef struct {
	int npts;                         /* scheduling/choice points of the last execution */
	uint8_t nopt[VS_MAXPTS];          /* options at each point */
	uint8_t choice[VS_MAXPTS];        /* option taken */
	uint8_t altcost[VS_MAXPTS];       /* cost of taking any option other than 0 at this point: 1 = preemption, 0 = free */
	uint8_t nspur[VS_MAXPTS];
	uint64_t sh[VS_MAXPTS];           /* happens-before hash of the global state at each point (see vsched.c) */         /* how many of the trailing options are spurious wake-ups (cost 1 each, separate budget) */
	int preemptions, spurious;        /* deviations actually taken */
	int threads_created;              /* not counting the main thread */
	int max_live;                     /* maximum number of simultaneously live (created, not finished) threads, main excluded */
	int blocked_mutex, blocked_cond, blocked_join;  /* how often a thread really had to wait */
	const char *error;                /* NULL, or "deadlock", "unlock of mutex not owned", ... */
	char errbuf[256];
	void *(*fn_of[VS_MAXTHR])(void *);/* start routine of each created thread (index = tid) */
	int live_by_fn_max;               /* max simultaneously live threads whose start routine == vs_watch_fn */
} vs_result;

void vs_begin(const uint8_t *prefix, int nprefix, int max_spurious, bool points_at_unlock);   /* call from the main thread before the body */
const vs_result *vs_end(void);                                                  /* after the body; main must have joined everything */
extern void *(*vs_watch_fn)(void *);
extern int vs_passthrough;
extern void (*vs_fatal_hook)(const char *what);   /* called (on the detecting thread) when the scheduler finds an error it cannot continue from */
#endif
