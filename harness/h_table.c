/* h_table.c -- writer/reader sweep serving C01 (round trip), C09 (well-formed v2 per independent decoder), C10 (trailer statistics).
 * Every case: real mtbl_writer -> memfd -> { real reader iteration, icodec decode + structural rules, metadata accessors }.
 * The oracle that reports is selected by --prop. */
#include "tbl.h"
#include <limits.h>

static int P01, P09, P10;
#define MAXE 1100

typedef struct {
	tcfg cfg;
	size_t n;
	tkv e[MAXE];
	char desc[256];     /* replayable generator description */
	int tool;           /* also run the command line tools on this case */
	int madvise;        /* 0 default, 1 option on, 2 env override on, 3 env override off with option on */
} tcase;

static void tcase_free(tcase *c) { for (size_t i = 0; i < c->n; i++) { free((void *) c->e[i].k); free((void *) c->e[i].v); } c->n = 0; }
static void tcase_add(tcase *c, const uint8_t *k, size_t kl, uint32_t vtag, size_t vl) {
	uint8_t *kk = malloc(kl + 1); memcpy(kk, k, kl);
	c->e[c->n].k = kk; c->e[c->n].kl = kl; c->e[c->n].v = tbl_val(vtag, vl); c->e[c->n].vl = vl; c->n++;
}
static void render(char *b, size_t n, void *ctx) { tcase *c = ctx; snprintf(b, n, "%s", c->desc); }

static const char *cfg_enc(const tcfg *c, int poolsz) {
	static char b[96]; snprintf(b, sizeof b, "%d,%d,%d,%zu,%zu,%zu,%d", c->comp, (int) c->uselevel, c->level, c->block_size, c->restart, c->prefix, poolsz); return b;
}
static int cfg_dec(const char *s, tcfg *c, int *poolsz) {
	int ul; memset(c, 0, sizeof *c);
	if (sscanf(s, "%d,%d,%d,%zu,%zu,%zu,%d", &c->comp, &ul, &c->level, &c->block_size, &c->restart, &c->prefix, poolsz) != 7) return -1;
	c->uselevel = ul; return 0;
}

/* ------------------------------------------------------------------ tools */
static int run_tool(const char *envname, char *const argv[], uint8_t **out, size_t *outlen, int keep_fd) {
	const char *exe = getenv(envname);
	if (!exe) return -2;
	int pfd[2]; if (pipe(pfd)) abort();
	pid_t pid = fork();
	if (pid == 0) {
		dup2(pfd[1], 1); close(pfd[0]); close(pfd[1]);
		int dn = open("/dev/null", O_WRONLY); dup2(dn, 2);
		setenv("LC_ALL", "C", 1);
		execv(exe, argv);
		_exit(127);
	}
	close(pfd[1]);
	size_t cap = 1 << 16, n = 0; uint8_t *b = malloc(cap);
	for (;;) { if (n == cap) { cap *= 2; b = realloc(b, cap); } ssize_t r = read(pfd[0], b + n, cap - n); if (r <= 0) break; n += r; }
	close(pfd[0]);
	int st; waitpid(pid, &st, 0);
	*out = b; *outlen = n; (void) keep_fd;
	return WIFEXITED(st) ? WEXITSTATUS(st) : 128 + WTERMSIG(st);
}

/* expected default-format rendering of mtbl_dump (print_string rule: printable C-locale bytes verbatim, '"' escaped, others \xNN) */
static void exp_print_string(ic_buf *o, const uint8_t *p, size_t n) {
	char t[8]; ic_buf_put(o, "\"", 1);
	for (size_t i = 0; i < n; i++) {
		unsigned c = p[i];
		if (c >= 0x20 && c < 0x7f) { if (c == '"') ic_buf_put(o, "\\\"", 2); else { t[0] = c; ic_buf_put(o, t, 1); } }
		else { sprintf(t, "\\x%02x", c); ic_buf_put(o, t, 4); }
	}
	ic_buf_put(o, "\"", 1);
}
static void exp_hex_string(ic_buf *o, const uint8_t *p, size_t n) {
	char t[16]; sprintf(t, "%08x:", (unsigned) n); ic_buf_put(o, t, 9);
	for (size_t i = 0; i < n; i++) { sprintf(t, "%02x", p[i]); ic_buf_put(o, t, 2); if (i + 1 < n) ic_buf_put(o, "-", 1); }
}
static void hexarg(char *dst, const uint8_t *p, size_t n) { for (size_t i = 0; i < n; i++) sprintf(dst + 2 * i, "%02x", p[i]); dst[2 * n] = 0; }

static void check_dump(tcase *c, int fd) {
	char path[64]; snprintf(path, sizeof path, "/proc/%d/fd/%d", (int) getpid(), fd);
	/* filter variants: none(-x), none(default), -k prefixes of first key, -v prefixes of first value, -K/-V 1,2,128 */
	struct { int hex; const uint8_t *kp; size_t kpl; const uint8_t *vp; size_t vpl; size_t K, V; int minfirst; } var[64]; int nv = 0;
	static uint8_t xk[4][700], xv[2][700];
	memset(var, 0, sizeof var);
	var[nv++].hex = 1; var[nv++].hex = 0;
	/* choose a reference entry: the middle one */
	if (c->n) {
		const tkv *m = &c->e[c->n / 2];
		for (size_t l = 1; l <= m->kl && l <= 3 && nv < 36; l++) { var[nv].hex = 1; var[nv].kp = m->k; var[nv].kpl = l; nv++; }
		if (m->kl > 3 && m->kl < 600) { var[nv].hex = 1; var[nv].kp = m->k; var[nv].kpl = m->kl; nv++; }
		for (size_t l = 1; l <= m->vl && l <= 2 && nv < 36; l++) { var[nv].hex = 1; var[nv].vp = m->v; var[nv].vpl = l; nv++; }
		if (m->kl >= 1 && m->vl >= 1) { var[nv].hex = 1; var[nv].kp = m->k; var[nv].kpl = 1; var[nv].vp = m->v; var[nv].vpl = 1; nv++; }
	}
	static const size_t mins[] = { 1, 2, 128 };
	for (int i = 0; i < 3; i++) { var[nv].hex = 1; var[nv].K = mins[i]; nv++; var[nv].hex = 1; var[nv].V = mins[i]; nv++; }
	var[nv].hex = 1; var[nv].K = 1; var[nv].V = 2; nv++;
	/* prefix and minimum-length options together, in both orders on the command line, with the minimum below, at and above the prefix length;
	 * and prefixes that are LONGER than a stored key or value: the key followed by the tail of the previous (longer) key - what a reused key
	 * buffer still holds - or by a 00 byte, the value followed by 00 (the byte that follows it inside the block). (seed R6-C01) */
	if (c->n) {
		const tkv *m = &c->e[c->n / 2];
		if (m->kl >= 1 && m->kl < 600) for (int o = 0; o < 2; o++) for (int d = -1; d <= 1; d++) { if ((long) m->kl + d < 1 || nv >= 60) continue; var[nv].hex = 1; var[nv].kp = m->k; var[nv].kpl = m->kl; var[nv].K = m->kl + d; var[nv].minfirst = o; nv++; }
		int nx = 0;
		for (size_t i = 0; i < c->n && nx < 4 && nv < 60; i++) {
			const tkv *e = &c->e[i]; if (e->kl >= 600) continue;
			size_t pl = 0; uint8_t *P = xk[nx];
			if (i && c->e[i - 1].kl > e->kl && c->e[i - 1].kl < 600) { memcpy(P, e->k, e->kl); memcpy(P + e->kl, c->e[i - 1].k + e->kl, c->e[i - 1].kl - e->kl); pl = c->e[i - 1].kl; }
			else if (i == c->n / 2) { memcpy(P, e->k, e->kl); P[e->kl] = 0; pl = e->kl + 1; }
			if (!pl) continue;
			nx++;
			for (int o = 0; o < 2 && nv < 60; o++) { var[nv].hex = 1; var[nv].kp = P; var[nv].kpl = pl; var[nv].K = e->kl ? e->kl : 0; var[nv].minfirst = o; if (!var[nv].K && o) continue; nv++; }
		}
		if (m->vl < 600 && nv < 60) { memcpy(xv[0], m->v, m->vl); xv[0][m->vl] = 0; for (int o = 0; o < 2 && nv < 60; o++) { if (!m->vl && o) continue; var[nv].hex = 1; var[nv].vp = xv[0]; var[nv].vpl = m->vl + 1; var[nv].V = m->vl; var[nv].minfirst = o; nv++; } }
	}
	for (int vi = 0; vi < nv; vi++) {
		char *argv[16]; int a = 0; char kb[1300], vb[1300], Kb[24], Vb[24];
		argv[a++] = "mtbl_dump";
		if (var[vi].hex) argv[a++] = "-x";
		if (var[vi].minfirst) { if (var[vi].K) { sprintf(Kb, "%zu", var[vi].K); argv[a++] = "-K"; argv[a++] = Kb; } if (var[vi].V) { sprintf(Vb, "%zu", var[vi].V); argv[a++] = "-V"; argv[a++] = Vb; } }
		if (var[vi].kp) { hexarg(kb, var[vi].kp, var[vi].kpl); argv[a++] = "-k"; argv[a++] = kb; }
		if (var[vi].vp) { hexarg(vb, var[vi].vp, var[vi].vpl); argv[a++] = "-v"; argv[a++] = vb; }
		if (!var[vi].minfirst && var[vi].K) { sprintf(Kb, "%zu", var[vi].K); argv[a++] = "-K"; argv[a++] = Kb; }
		if (!var[vi].minfirst && var[vi].V) { sprintf(Vb, "%zu", var[vi].V); argv[a++] = "-V"; argv[a++] = Vb; }
		argv[a++] = path; argv[a] = NULL;
		uint8_t *out; size_t outlen;
		int rc = run_tool("VERIF_TOOL_MTBL_DUMP", argv, &out, &outlen, fd);
		if (rc == -2) { printf("@error \"mtbl_dump tool not built\"\n"); return; }
		ic_buf exp = { 0 };
		for (size_t i = 0; i < c->n; i++) {
			const tkv *e = &c->e[i];
			if (var[vi].kp && !(e->kl >= var[vi].kpl && !memcmp(e->k, var[vi].kp, var[vi].kpl))) continue;
			if (var[vi].vp && !(e->vl >= var[vi].vpl && !memcmp(e->v, var[vi].vp, var[vi].vpl))) continue;
			if (e->kl < var[vi].K || e->vl < var[vi].V) continue;
			if (var[vi].hex) { exp_hex_string(&exp, e->k, e->kl); ic_buf_put(&exp, " ", 1); exp_hex_string(&exp, e->v, e->vl); }
			else { exp_print_string(&exp, e->k, e->kl); ic_buf_put(&exp, " ", 1); exp_print_string(&exp, e->v, e->vl); }
			ic_buf_put(&exp, "\n", 1);
		}
		if (rc != 0) vh_violation("dump-rc", "mtbl_dump variant %d exited with status %d", vi, rc);
		else if (!var[vi].hex) {
			/* the quoting of the default format is not part of the statement (and is ambiguous for backslashes): only the number of entries is judged */
			size_t ln = 0, le = 0; for (size_t q = 0; q < outlen; q++) ln += out[q] == '\n'; for (size_t q = 0; q < exp.n; q++) le += exp.p[q] == '\n';
			if (ln != le) vh_violation("dump", "mtbl_dump (default format) prints %zu lines for %zu entries", ln, le);
		}
		else if (outlen != exp.n || memcmp(out, exp.p, outlen)) vh_violation("dump", "mtbl_dump output (variant %d: hex=%d kprefix=%zu vprefix=%zu K=%zu V=%zu%s) is %zu bytes, expected %zu bytes (first difference at %zu)", vi, var[vi].hex, var[vi].kpl, var[vi].vpl, var[vi].K, var[vi].V, var[vi].minfirst ? " minimum options first" : "", outlen, exp.n, ({ size_t d = 0; while (d < outlen && d < exp.n && out[d] == exp.p[d]) d++; d; }));
		free(out); free(exp.p);
		VH_COUNT("tool_runs", 1); VH_COUNT("transitions", 1);
	}
}

static void check_info(tcase *c, int fd, const uint64_t truth[9], size_t filelen) {
	char path[64]; snprintf(path, sizeof path, "/proc/%d/fd/%d", (int) getpid(), fd);
	char *argv[] = { "mtbl_info", path, NULL };
	uint8_t *out; size_t outlen;
	int rc = run_tool("VERIF_TOOL_MTBL_INFO", argv, &out, &outlen, fd);
	if (rc == -2) { printf("@error \"mtbl_info tool not built\"\n"); return; }
	if (rc != 0) { vh_violation("info-rc", "mtbl_info exited with status %d", rc); free(out); return; }
	out = realloc(out, outlen + 1); out[outlen] = 0;
	static const struct { const char *label; int idx; } L[] = {
		{ "index block offset:", 0 }, { "data block size:", 1 }, { "entry count:", 3 }, { "data block count", 4 },
		{ "data block bytes", 5 }, { "index bytes:", 6 }, { "key bytes:", 7 }, { "value bytes:", 8 }, { "file size:", 9 } };
	for (unsigned i = 0; i < sizeof L / sizeof *L; i++) {
		char *p = strstr((char *) out, L[i].label);
		if (!p) { vh_violation("info-missing", "mtbl_info output lacks '%s'", L[i].label); continue; }
		p += strlen(L[i].label);
		uint64_t v = 0; int nd = 0;
		while (*p == ' ') p++;
		while ((*p >= '0' && *p <= '9') || *p == ',') { if (*p != ',') { v = v * 10 + (*p - '0'); nd++; } p++; }
		uint64_t want = L[i].idx == 9 ? filelen : truth[L[i].idx];
		if (!nd || v != want) vh_violation("info", "mtbl_info prints '%s' %" PRIu64 ", the file's truth is %" PRIu64, L[i].label, v, want);
	}
	char *p = strstr((char *) out, "compression algorithm:");
	static const char *names[] = { "none", "snappy", "zlib", "lz4", "lz4hc", "zstd" };
	if (!p) vh_violation("info-missing", "mtbl_info output lacks the compression line");
	else { p += strlen("compression algorithm:"); while (*p == ' ') p++; size_t l = strlen(names[truth[2]]); if (strncmp(p, names[truth[2]], l) || p[l] != '\n') vh_violation("info", "mtbl_info prints compression '%.*s', the file uses %s", (int) (strchr(p, '\n') - p), p, names[truth[2]]); }
	free(out);
	VH_COUNT("tool_runs", 1); VH_COUNT("transitions", 1);
}

/* ------------------------------------------------------------------ one case */
static void run_case(tcase *c) {
	vh_case_begin(render, c);
	if (VH_WANT_SAMPLE() && c->n >= 2) vh_sample("%s", c->desc);
	int fd = tbl_write(&c->cfg, c->e, c->n, NULL);
	VH_COUNT("transitions", c->n + 2);
	size_t flen; uint8_t *bytes = tbl_slurp(fd, &flen);
	/* independent decode: needed by C09/C10 and for the structural signature */
	ic_file f; int dr = ic_decode(bytes, flen, &f);
	uint64_t sig = vh_mix(c->cfg.comp, c->cfg.restart);
	if (dr == 0) {
		sig = vh_mix(sig, f.nblocks < 6 ? f.nblocks : 6);
		size_t maxn = 0, shortened = 0, multi_restart = 0;
		for (size_t i = 0; i < f.nblocks; i++) {
			if (f.blocks[i].n > maxn) maxn = f.blocks[i].n;
			const ic_ent *last = &f.blocks[i].e[f.blocks[i].n - 1];
			if (ic_cmp(last->key, last->klen, f.index.e[i].key, f.index.e[i].klen) != 0) shortened++;
			if (f.blocks[i].nrestarts > 1) multi_restart++;
		}
		sig = vh_mix(sig, (maxn < 4 ? maxn : 4) * 16 + (shortened < 3 ? shortened : 3) * 4 + (multi_restart ? 1 : 0));
		VH_COUNT("blocks_seen", f.nblocks); if (f.nblocks > 1) VH_COUNT("multi_block_tables", 1); if (shortened) VH_COUNT("tables_with_shortened_separator", 1);
		if (multi_restart) VH_COUNT("tables_with_multi_restart_block", 1);
	}
	vh_sig(sig);

	if (P09) {
		if (dr) vh_violation("undecodable", "independent decoder rejects the file: %s", f.err);
		else {
			for (size_t i = 0; i < c->cfg.prefix; i++) if (bytes[i] != tbl_prefix_byte(i)) { vh_violation("prefix", "byte %zu before the table was modified", i); break; }
			const char *w = ic_check_written(&f, flen, c->cfg.prefix, tcfg_restart(&c->cfg), tcfg_block_size(&c->cfg));
			if (w) vh_violation("malformed", "%s", w);
			/* logical content as decoded independently */
			size_t idx = 0; bool bad = false;
			for (size_t b = 0; b < f.nblocks && !bad; b++) for (size_t i = 0; i < f.blocks[b].n; i++, idx++) {
				const ic_ent *e = &f.blocks[b].e[i];
				if (idx >= c->n || e->klen != c->e[idx].kl || memcmp(e->key, c->e[idx].k, e->klen) || e->vlen != c->e[idx].vl || memcmp(e->val, c->e[idx].v, e->vlen)) { vh_violation("content", "independent decoder sees a different entry #%zu than was added", idx); bad = true; break; }
			}
			if (!bad && idx != c->n) vh_violation("content", "independent decoder sees %zu entries, %zu were added", idx, c->n);
			if (f.comp != (uint64_t) c->cfg.comp) vh_violation("comp", "trailer says compression %llu, configured %d", (unsigned long long) f.comp, c->cfg.comp);
		}
		VH_COUNT("transitions", 1);
	}

	struct mtbl_reader_options *ro = mtbl_reader_options_init();
	if (c->madvise == 1 || c->madvise == 3) mtbl_reader_options_set_madvise_random(ro, true);
	if (c->madvise == 2) setenv("MTBL_READER_MADVISE_RANDOM", "1", 1);
	if (c->madvise == 3) setenv("MTBL_READER_MADVISE_RANDOM", "0", 1);
	struct mtbl_reader *r = mtbl_reader_init_fd(fd, ro);
	mtbl_reader_options_destroy(&ro);
	unsetenv("MTBL_READER_MADVISE_RANDOM");
	if (!r) { if (P01 || P10) vh_violation("noreader", "reader refuses the file the writer produced"); goto out; }

	if (P01) {
		struct mtbl_iter *it = mtbl_source_iter(mtbl_reader_source(r));
		const char *w = tbl_drain_cmp(it, c->e, c->n);
		if (w) vh_violation("roundtrip", "%s", w);
		mtbl_iter_destroy(&it);
		VH_COUNT("transitions", c->n + 2);
		if (c->tool) check_dump(c, fd);
	}
	if (P10) {
		if (dr) vh_violation("undecodable", "independent decoder rejects the file: %s", f.err);
		else {
			const struct mtbl_metadata *m = mtbl_reader_metadata(r);
			uint64_t truth[9]; memset(truth, 0, sizeof truth);
			truth[0] = f.index_off; truth[1] = tcfg_block_size(&c->cfg); truth[2] = c->cfg.comp;
			for (size_t b = 0; b < f.nblocks; b++) { truth[3] += f.blocks[b].n; truth[5] += f.blocks[b].total_len; for (size_t i = 0; i < f.blocks[b].n; i++) { truth[7] += f.blocks[b].e[i].klen; truth[8] += f.blocks[b].e[i].vlen; } }
			truth[4] = f.nblocks; truth[6] = f.index.total_len;
			/* index offset truth: prefix + sum of data blocks, independent of what the trailer claims */
			uint64_t real_index_off = c->cfg.prefix + truth[5];
			uint64_t got[9] = { mtbl_metadata_index_block_offset(m), mtbl_metadata_data_block_size(m), mtbl_metadata_compression_algorithm(m), mtbl_metadata_count_entries(m),
				mtbl_metadata_count_data_blocks(m), mtbl_metadata_bytes_data_blocks(m), mtbl_metadata_bytes_index_block(m), mtbl_metadata_bytes_keys(m), mtbl_metadata_bytes_values(m) };
			static const char *nm[9] = { "index_block_offset", "data_block_size", "compression_algorithm", "count_entries", "count_data_blocks", "bytes_data_blocks", "bytes_index_block", "bytes_keys", "bytes_values" };
			if (real_index_off != f.index_off || flen != real_index_off + f.index.total_len + 512) vh_violation("layout", "index block is not where prefix + data blocks end");
			if (truth[3] != c->n) vh_violation("count", "file holds %" PRIu64 " entries, %zu were accepted", truth[3], c->n);
			for (int i = 0; i < 9; i++) if (got[i] != truth[i]) vh_violation(nm[i], "mtbl_metadata_%s = %" PRIu64 ", the file's truth is %" PRIu64, nm[i], got[i], truth[i]);
			if (mtbl_metadata_file_version(m) != MTBL_FORMAT_V2) vh_violation("version", "file_version accessor is not v2");
			VH_COUNT("transitions", 10);
			if (c->tool) check_info(c, fd, truth, flen);
		}
	}
	mtbl_reader_destroy(&r);
out:
	if (dr == 0) ic_free(&f);
	free(bytes); close(fd);
	VH_COUNT("cases", 1);
	vh_case_end();
}

/* ------------------------------------------------------------------ generators (each rebuildable from its description) */
static struct mtbl_threadpool *g_pool; static int g_poolsz;
static void set_pool(tcase *c, int poolsz) {
	if (poolsz != g_poolsz) { if (g_pool) mtbl_threadpool_destroy(&g_pool); g_pool = poolsz ? mtbl_threadpool_init(poolsz) : NULL; g_poolsz = poolsz; }
	c->cfg.pool = g_pool;
}

static const size_t VS_Q[] = { 0, 1, 600 }, VS_T[] = { 0, 1, 600, 1100 };
/* structure sweep: subset mask over K9, value-size code in base nvs */
static void gen_struct(tcase *c, const tcfg *cfg, int poolsz, unsigned mask, unsigned vcode, int nvs, const size_t *vs) {
	memset(c, 0, sizeof *c); c->cfg = *cfg; set_pool(c, poolsz);
	unsigned vc = vcode;
	for (int i = 0; i < 9; i++) if (mask >> i & 1) { tcase_add(c, TBL_K9[i].b, TBL_K9[i].n, (uint32_t) (i + 1), vs[vc % nvs]); vc /= nvs; }
	snprintf(c->desc, sizeof c->desc, "S:%s:%u:%u:%d", cfg_enc(cfg, poolsz), mask, vcode, nvs);
}
/* cadence sweep: family 0 = "%08x" counters, 1 = each key a proper prefix of the next, 2 = long shared stem + 2-byte suffix */
static void gen_cadence(tcase *c, const tcfg *cfg, int fam, size_t n, size_t stem, size_t vlen) {
	memset(c, 0, sizeof *c); c->cfg = *cfg; set_pool(c, 0);
	uint8_t *kb = malloc(stem + n + 16);
	for (size_t i = 0; i < n && i < MAXE; i++) {
		size_t kl;
		if (fam == 0) { kl = sprintf((char *) kb, "%08zx", i * 3); }
		else if (fam == 1) { memset(kb, 'a', i + 1); kl = i + 1; if (i % 7 == 3) kb[i] = 'a'; }
		else { for (size_t j = 0; j < stem; j++) kb[j] = (uint8_t) (0x30 + j % 10); kb[stem] = (uint8_t) (i >> 8); kb[stem + 1] = (uint8_t) i; kl = stem + 2; }
		tcase_add(c, kb, kl, (uint32_t) i, vlen ? (i % (vlen + 1)) : 0);
	}
	free(kb);
	snprintf(c->desc, sizeof c->desc, "B:%s:%d:%zu:%zu:%zu", cfg_enc(cfg, 0), fam, n, stem, vlen);
}
/* length sweep */
static void gen_len(tcase *c, const tcfg *cfg, size_t kl, size_t vl, int middle) {
	memset(c, 0, sizeof *c); c->cfg = *cfg; set_pool(c, 0);
	uint8_t *kb = malloc(kl + 1); for (size_t j = 0; j < kl; j++) kb[j] = (uint8_t) (j == 0 ? 0x41 : (j * 131 + 7));
	if (middle) tcase_add(c, (const uint8_t *) "\x01", 1, 1, 3);
	tcase_add(c, kb, kl, 2, vl);
	if (middle) tcase_add(c, (const uint8_t *) "\xff\xff", 2, 3, 2);
	free(kb);
	snprintf(c->desc, sizeof c->desc, "L:%s:%zu:%zu:%d", cfg_enc(cfg, 0), kl, vl, middle);
}
/* 16-bit separator family: two keys of the 320-key universe over {00,01,fe,ff}, one block each */
static u5key U16[400]; static size_t nU16;
static void gen_pair16(tcase *c, const tcfg *cfg, int i, int j) {
	memset(c, 0, sizeof *c); c->cfg = *cfg; set_pool(c, 0);
	tcase_add(c, U16[i].b, U16[i].n, 1, 600); tcase_add(c, U16[j].b, U16[j].n, 2, 600);
	snprintf(c->desc, sizeof c->desc, "P:%s:%d:%d", cfg_enc(cfg, 0), i, j);
}
/* level sweep: fixed 3-block table */
static void gen_level(tcase *c, const tcfg *cfg) {
	memset(c, 0, sizeof *c); c->cfg = *cfg; set_pool(c, 0);
	char kb[16];
	for (int i = 0; i < 9; i++) { sprintf(kb, "key%02d", i); tcase_add(c, (uint8_t *) kb, 5, i, i % 3 == 2 ? 700 : 40); }
	snprintf(c->desc, sizeof c->desc, "V:%s", cfg_enc(cfg, 0));
}

static int replay(const char *s) {
	static tcase c; tcfg cfg; int poolsz; char cf[128];
	unsigned mask, vcode; int nvs, fam, middle; size_t n, stem, vlen, kl, vl;
	const char *rest = strchr(s + 2, ':');
	if (!rest || (size_t) (rest - (s + 2)) >= sizeof cf) return -1;
	memcpy(cf, s + 2, rest - (s + 2)); cf[rest - (s + 2)] = 0;
	if (s[0] == 'V') { if (cfg_dec(s + 2, &cfg, &poolsz)) return -1; gen_level(&c, &cfg); }
	else {
		if (cfg_dec(cf, &cfg, &poolsz)) return -1;
		int mv = 0;
		if (s[0] == 'S' && sscanf(rest, ":%u:%u:%d:m%d", &mask, &vcode, &nvs, &mv) >= 3) { gen_struct(&c, &cfg, poolsz, mask, vcode, nvs, nvs == 3 ? VS_Q : VS_T); c.madvise = mv; }
		else if (s[0] == 'B' && sscanf(rest, ":%d:%zu:%zu:%zu", &fam, &n, &stem, &vlen) == 4) gen_cadence(&c, &cfg, fam, n, stem, vlen);
		else if (s[0] == 'L' && sscanf(rest, ":%zu:%zu:%d", &kl, &vl, &middle) == 3) gen_len(&c, &cfg, kl, vl, middle);
		else if (s[0] == 'P' && sscanf(rest, ":%d:%d", &fam, &middle) == 2) { nU16 = u16_gen(U16); gen_pair16(&c, &cfg, fam, middle); }
		else return -1;
	}
	c.tool = 1;
	run_case(&c); tcase_free(&c);
	return 0;
}

static int popcount9(unsigned m) { return __builtin_popcount(m); }

/* ---- giant entries and blocks (thorough tier, several GiB of memory): sizes at which zlib's 32-bit counters wrap (finding F13)
 *   kind 0: default options (zlib), one value of 2^30 incompressible bytes -> the stored block is >= 1 GiB, the reader's inflate buffer reaches 4 GiB
 *   kind 1: zlib, block_size 2^33, two values of 2^31 zero bytes -> one data block of more than 4 GiB goes through deflate and inflate
 *   kind 2: no compression, one value of 2^31 + 2^20 zero bytes -> one stored block above Linux's per-call I/O limit of 0x7ffff000 bytes: the
 *           kernel itself answers the block's write with a short count (seed R7-C01: a vectored write whose resume offset was wrong)
 * The round trip must return exactly the entries, as for any other table (C01); the file must satisfy the independent decoder's
 * container rules (C09: prefix, crc, index, trailer are checked by reading it back through the reader and by the trailer counts). ---- */
typedef struct { int kind; } gcase_t;
static void grender(char *b, size_t n, void *ctx) { gcase_t *g = ctx; snprintf(b, n, "Z:%d", g->kind); }
static uint8_t gz_byte(uint64_t *st) { *st ^= *st << 13; *st ^= *st >> 7; *st ^= *st << 17; return (uint8_t) (*st >> 24); }
static void giant_one(int kind) {
	gcase_t g = { kind };
	vh_case_begin(grender, &g);
	if (!vh_batch_fork()) { vh_case_end(); return; }
	vh_watchdog_s = 1200;
	size_t vlen = kind == 0 ? ((size_t) 1 << 30) : kind == 2 ? ((size_t) 1 << 31) + ((size_t) 1 << 20) : ((size_t) 1 << 31); int nent = kind == 1 ? 2 : 1;
	uint8_t *val = kind == 0 ? malloc(vlen) : calloc(vlen, 1);
	if (!val) { printf("@note \"giant case %d skipped: this machine cannot allocate %zu bytes\"\n", kind, vlen); VH_COUNT("giant_skipped_no_memory", 1); vh_case_end(); vh_batch_exit(); }
	if (kind == 0) { uint64_t st = 0x9e3779b97f4a7c15ull; for (size_t i = 0; i < vlen; i++) val[i] = gz_byte(&st); }
	int fd = tbl_memfd();
	struct mtbl_writer_options *o = mtbl_writer_options_init();
	if (kind == 1) mtbl_writer_options_set_block_size(o, (size_t) 1 << 33);
	if (kind == 2) mtbl_writer_options_set_compression(o, MTBL_COMPRESSION_NONE);
	struct mtbl_writer *w = mtbl_writer_init_fd(fd, o); mtbl_writer_options_destroy(&o);
	static const char *keys[2] = { "a", "b" }; mtbl_res r[2] = { mtbl_res_success, mtbl_res_success };
	for (int i = 0; i < nent; i++) { r[i] = mtbl_writer_add(w, (const uint8_t *) keys[i], 1, val, vlen); vh_case_seq++; }
	mtbl_writer_destroy(&w);
	vh_case_seq++;
	for (int i = 0; i < nent; i++) if (r[i] != mtbl_res_success) vh_violation("giant-refused", "add #%d of a %zu-byte value in key order was refused", i, vlen);
	struct mtbl_reader *rd = mtbl_reader_init_fd(fd, NULL);
	if (!rd) vh_violation("giant", "the file written for %d value(s) of %zu bytes does not open", nent, vlen);
	else {
		const struct mtbl_metadata *m = mtbl_reader_metadata(rd);
		if (mtbl_metadata_count_entries(m) != (uint64_t) nent || mtbl_metadata_bytes_values(m) != (uint64_t) nent * vlen || mtbl_metadata_count_data_blocks(m) != 1) vh_violation("giant-trailer", "trailer: %llu entries, %llu value bytes, %llu data blocks", (unsigned long long) mtbl_metadata_count_entries(m), (unsigned long long) mtbl_metadata_bytes_values(m), (unsigned long long) mtbl_metadata_count_data_blocks(m));
		struct mtbl_iter *it = mtbl_source_iter(mtbl_reader_source(rd)); const uint8_t *k, *v; size_t kl, vl; int n = 0;
		while (mtbl_iter_next(it, &k, &kl, &v, &vl) == mtbl_res_success) {
			vh_case_seq++;
			bool ok = n < nent && kl == 1 && k[0] == (uint8_t) keys[n][0] && vl == vlen;
			if (ok) { if (kind == 0) ok = memcmp(v, val, vlen) == 0; else { for (size_t i = 0; i < vlen; i += 4096) if (v[i]) { ok = false; break; } if (v[vlen - 1]) ok = false; } }
			if (!ok) { vh_violation("giant", "entry #%d reads back with key length %zu, value length %zu (expected 1, %zu) or other bytes", n, kl, vl, vlen); break; }
			n++;
		}
		if (n != nent) vh_violation("giant", "iteration returned %d of %d entries", n, nent);
		mtbl_iter_destroy(&it); mtbl_reader_destroy(&rd);
	}
	close(fd); free(val);
	VH_COUNT("cases", 1); VH_COUNT("transitions", 2 * nent); VH_COUNT("giant_tables", 1);
	vh_sig(vh_mix(0x61a27, kind));
	vh_case_end();
	vh_batch_exit();
}

/* ---- a multi-entry data block whose entry bytes cross 4 GiB (thorough tier of C09, about 9 GiB of memory per case).
 * The restart array of a block switches from 32-bit to 64-bit offsets once the entry bytes exceed UINT32_MAX, so the size a block WILL have
 * after the next entry is not "size now + entry": the writer's admission test has to use the width the finished block will use.
 *   entries: npre small ones (4-byte keys, 1-byte values), then "b" -> V1 zero bytes (entry bytes end 2^20 below 2^32), then "c" -> 2^21 bytes;
 *   restart interval 1 (R1 = npre+1 restart points before the last add), no compression;
 *   block size B = (32-bit-width estimate before the last add: entries + 4*R1 + 4) + 15 + klen + vlen + 1 + d
 * Oracle, exactly the two-sided rule of the statement: a block holding more than one entry is at most B bytes; a block is closed only if the
 * next entry (15 bytes of header allowed) would bring it to B, where "would bring it to" is computed with the restart width the block would
 * then have. Plus the container facts the independent decoder checks elsewhere: length prefix = entries + width*restarts + 4, and the round trip. ---- */
typedef struct { int npre; long d; } xcase_t;
static void xrender(char *b, size_t n, void *ctx) { xcase_t *x = ctx; snprintf(b, n, "X:%d:%ld", x->npre, x->d); }
static size_t x_varint_len(uint64_t v) { size_t n = 1; while (v >= 128) { v >>= 7; n++; } return n; }
static void cross4g_one(int npre, long d) {
	xcase_t x = { npre, d };
	vh_case_begin(xrender, &x);
	if (!vh_batch_fork()) { vh_case_end(); return; }
	vh_watchdog_s = 1200;
	const size_t V2 = (size_t) 1 << 21, SRC = (size_t) 1 << 32;
	const uint8_t *zero = mmap(NULL, SRC, PROT_READ, MAP_PRIVATE | MAP_ANONYMOUS | MAP_NORESERVE, -1, 0);
	if (zero == MAP_FAILED) { printf("@note \"cross4g case skipped: cannot map a 4 GiB zero source on this machine\"\n"); VH_COUNT("giant_skipped_no_memory", 1); vh_case_end(); vh_batch_exit(); }
	size_t pre = (size_t) npre * (3 + 4 + 1);                           /* shared=0, nonshared=4, vlen=1: three 1-byte varints */
	size_t S1 = (size_t) UINT32_MAX - ((size_t) 1 << 20);               /* entry bytes before the last add */
	size_t V1 = S1 - pre - (1 + 1 + 5 + 1);                             /* "b": varint(0) varint(1) varint(V1: 5 bytes) key value */
	if (x_varint_len(V1) != 5) abort();
	size_t R1 = (size_t) npre + 1;
	size_t est = S1 + 4 * R1 + 4 + 15 + 1 + V2;
	size_t B = est + 1 + (size_t) d;
	size_t S2 = S1 + 1 + 1 + x_varint_len(V2) + 1 + V2;                 /* entry bytes if the last entry joins the block */
	int fd = tbl_memfd();
	struct mtbl_writer_options *o = mtbl_writer_options_init();
	mtbl_writer_options_set_compression(o, MTBL_COMPRESSION_NONE);
	mtbl_writer_options_set_block_restart_interval(o, 1);
	mtbl_writer_options_set_block_size(o, B);
	struct mtbl_writer *w = mtbl_writer_init_fd(fd, o); mtbl_writer_options_destroy(&o);
	bool refused = false; char kb[8];
	for (int i = 0; i < npre; i++) { snprintf(kb, sizeof kb, "a%03d", i); if (mtbl_writer_add(w, (const uint8_t *) kb, 4, (const uint8_t *) "v", 1) != mtbl_res_success) refused = true; }
	if (mtbl_writer_add(w, (const uint8_t *) "b", 1, zero, V1) != mtbl_res_success) refused = true;
	vh_case_seq++;
	if (mtbl_writer_add(w, (const uint8_t *) "c", 1, zero, V2) != mtbl_res_success) refused = true;
	vh_case_seq++;
	mtbl_writer_destroy(&w);
	if (refused) vh_violation("cross4g-refused", "an add in key order was refused");
	struct mtbl_reader_options *ro = mtbl_reader_options_init(); mtbl_reader_options_set_verify_checksums(ro, true);
	struct mtbl_reader *rd = mtbl_reader_init_fd(fd, ro); mtbl_reader_options_destroy(&ro);
	if (!rd) vh_violation("cross4g-unreadable", "the file does not open");
	else {
		const struct mtbl_metadata *m = mtbl_reader_metadata(rd);
		uint64_t nb = mtbl_metadata_count_data_blocks(m), ne = mtbl_metadata_count_entries(m);
		uint8_t hdr[10] = { 0 }; if (pread(fd, hdr, sizeof hdr, 0) < 1) abort();
		uint64_t L0 = 0; for (int i = 0, sh = 0; i < 10; i++, sh += 7) { L0 |= (uint64_t) (hdr[i] & 0x7f) << sh; if (!(hdr[i] & 0x80)) break; }
		if (ne != (uint64_t) npre + 2) vh_violation("cross4g-trailer", "trailer counts %llu entries, %d were accepted", (unsigned long long) ne, npre + 2);
		if (nb == 1) {
			size_t want = S2 + 8 * (R1 + 1) + 4;
			if (L0 != want) vh_violation("cross4g-format", "one block of %d entries with %zu entry bytes: length prefix %llu, a 64-bit restart array of %zu points makes it %zu", npre + 2, S2, (unsigned long long) L0, R1 + 1, want);
			if (L0 > B) { char key[64]; snprintf(key, sizeof key, "cross4g-oversize:%d:%ld", npre, d); vh_violation(key, "block 0 holds %d entries and is %llu bytes > block size %zu (the admission test counted 4 bytes per restart point, the finished block has 8: %zu restart points)", npre + 2, (unsigned long long) L0, B, R1 + 1); }
			VH_COUNT("cross4g_one_block", 1);
		} else if (nb == 2) {
			size_t want = S1 + 4 * R1 + 4;
			if (L0 != want) vh_violation("cross4g-format", "first block of %d entries with %zu entry bytes: length prefix %llu, expected %zu", npre + 1, S1, (unsigned long long) L0, want);
			size_t wb_entries = S1 + 15 + 1 + V2;
			size_t would = wb_entries + (wb_entries > UINT32_MAX ? 8 : 4) * R1 + 4;
			if (would < B) vh_violation("cross4g-early", "block 0 (%zu bytes) closed early: the next entry (1+%zu+15) would only bring it to %zu < %zu", want, V2, would, B);
			VH_COUNT("cross4g_two_blocks", 1);
		} else vh_violation("cross4g-blocks", "%llu data blocks for %d entries", (unsigned long long) nb, npre + 2);
		struct mtbl_iter *it = mtbl_source_iter(mtbl_reader_source(rd)); const uint8_t *k, *v; size_t kl, vl; int n = 0;
		while (mtbl_iter_next(it, &k, &kl, &v, &vl) == mtbl_res_success) {
			vh_case_seq++;
			bool ok;
			if (n < npre) { snprintf(kb, sizeof kb, "a%03d", n); ok = kl == 4 && !memcmp(k, kb, 4) && vl == 1 && v[0] == 'v'; }
			else { size_t wl = n == npre ? V1 : V2; ok = n < npre + 2 && kl == 1 && k[0] == (n == npre ? 'b' : 'c') && vl == wl; if (ok) { for (size_t i = 0; i < wl; i += 4096) if (v[i]) { ok = false; break; } if (v[wl - 1]) ok = false; } }
			if (!ok) { vh_violation("cross4g-roundtrip", "entry #%d reads back with key length %zu, value length %zu or other bytes", n, kl, vl); break; }
			n++;
		}
		if (n != npre + 2) vh_violation("cross4g-roundtrip", "iteration returned %d of %d entries", n, npre + 2);
		mtbl_iter_destroy(&it);
		it = mtbl_source_get(mtbl_reader_source(rd), (const uint8_t *) "c", 1);
		if (!it || mtbl_iter_next(it, &k, &kl, &v, &vl) != mtbl_res_success || kl != 1 || k[0] != 'c' || vl != V2) vh_violation("cross4g-roundtrip", "get(\"c\") (the entry beyond the 4 GiB mark) does not return it");
		if (it) mtbl_iter_destroy(&it);
		mtbl_reader_destroy(&rd);
	}
	close(fd);
	VH_COUNT("cases", 1); VH_COUNT("transitions", npre + 2 + npre + 3); VH_COUNT("cross4g_tables", 1);
	vh_sig(vh_mix(vh_mix(0xc4055, npre), d));
	vh_case_end();
	vh_batch_exit();
}
static void cross4g(void) {
	static const struct { int npre; long d; } X[] = { { 0, 0 }, { 0, 1 }, { 0, 4 }, { 100, 0 }, { 100, 401 }, { 100, 404 } }     /* one block would exceed B by 4*R1-2-d bytes: d = 4*R1-3 is the last such case; from d = 4*R1 on the entry fits */;
	for (size_t i = 0; i < sizeof X / sizeof X[0]; i++) cross4g_one(X[i].npre, X[i].d);
}

int main(int argc, char **argv) {
	vh_init(argc, argv);
	P01 = !strcmp(vh_prop, "C01"); P09 = !strcmp(vh_prop, "C09"); P10 = !strcmp(vh_prop, "C10");
	if (!P01 && !P09 && !P10) P01 = P09 = P10 = 1;
	static tcase c;
	if (vh_case_arg && vh_case_arg[0] == 'Z') { giant_one(atoi(vh_case_arg + 2)); return vh_finish(); }
	if (vh_case_arg && vh_case_arg[0] == 'X') { int np; long dd; if (sscanf(vh_case_arg, "X:%d:%ld", &np, &dd) != 2) return 2; cross4g_one(np, dd); return vh_finish(); }
	if (vh_case_arg) { if (replay(vh_case_arg)) fprintf(stderr, "cannot parse case %s\n", vh_case_arg); return vh_finish(); }
	const char *mode = vh_arg(0, "struct");
	if (!strcmp(mode, "cross4g")) { if (vh_shard == 0) cross4g(); return vh_finish(); }
	if (!strcmp(mode, "giant")) { if (vh_shard == 0) { giant_one(2); giant_one(0); giant_one(1); } return vh_finish(); }
	uint64_t idx = 0;
	static const int comps[6] = { 0, 1, 3, 4, 5, 2 };
	if (!strcmp(mode, "struct") || !strcmp(mode, "pool")) {
		int pool = !strcmp(mode, "pool");
		int maxn = pool ? 3 : (vh_thorough ? 5 : 4);
		int nvs = (vh_thorough || pool) ? 4 : 3; const size_t *vs = nvs == 3 ? VS_Q : VS_T;     /* pooled sweep: blocks below and above 1024 bytes */
		static const size_t RQ[] = { 1, 2, 16 }, RT[] = { 1, 2, 3, 16, 17 };
		static const size_t BQ[] = { 1024 }, BT[] = { 1024, 1025, 4096 };
		static const size_t PQ[] = { 0, 13 }, PT[] = { 0, 1, 13, 4096 };
		static const int POOLS[] = { 1, 2, 8 };
		const size_t *R = vh_thorough && !pool ? RT : RQ; int nR = vh_thorough && !pool ? 5 : 3;
		const size_t *B = vh_thorough && !pool ? BT : BQ; int nB = vh_thorough && !pool ? 3 : 1;
		const size_t *PF = vh_thorough && !pool ? PT : PQ; int nP = vh_thorough && !pool ? 4 : 2;
		int npool = pool ? 3 : 1;
		for (int pi = 0; pi < npool; pi++)
		for (unsigned mask = 0; mask < 512; mask++) {
			int n = popcount9(mask); if (n > maxn) continue;
			/* shard on (pool, mask): each shard keeps one pool alive for long stretches */
			if (!vh_mine(idx++)) continue;
			if (vh_time_up()) goto done;
			unsigned nv = 1; for (int i = 0; i < n; i++) nv *= nvs;
			for (unsigned vcode = 0; vcode < nv; vcode++) {
			if ((vcode & 7) == 0 && vh_time_up()) goto done;
			for (int ci = 0; ci < 6; ci++) for (int ri = 0; ri < nR; ri++) for (int bi = 0; bi < nB; bi++) for (int fi = 0; fi < nP; fi++) {
				/* thorough tier: the full configuration product for n<=3; for longer sequences the block-size and prefix axes are thinned */
				if (vh_thorough && !pool && n >= 4 && ((bi != 0 && ri > 1) || (fi > 1 && ci > 1))) continue;
				if (vh_thorough && !pool && n >= 5 && (ri == 2 || ri == 4) && ci != 0) continue;
				tcfg cfg = { 0 }; cfg.comp = comps[ci]; cfg.restart = R[ri]; cfg.block_size = B[bi]; cfg.prefix = PF[fi];
				gen_struct(&c, &cfg, pool ? POOLS[pi] : 0, mask, vcode, nvs, vs);
				c.tool = (!pool && ci == 0 && ri == 0 && bi == 0 && fi == 0 && (mask * 31 + vcode) % 16 == 0);
				run_case(&c); tcase_free(&c);
				if (vh_too_many()) goto done;
			}
			}
		}
	} else if (!strcmp(mode, "cadence")) {
		static const size_t R[] = { 1, 2, 3, 16, 17 };
		static const int CC[] = { 0, 3, 2 };
		for (int ri = 0; ri < 5; ri++) {
			size_t r = R[ri]; size_t ns[] = { r - 1, r, r + 1, 2 * r, 2 * r + 1, 100, 1000 };
			for (int ni = 0; ni < 7; ni++) for (int fam = 0; fam < 3; fam++) for (int ci = 0; ci < 3; ci++) for (int st = 0; st < (fam == 2 ? 3 : 1); st++) for (int vl = 0; vl < 2; vl++) {
				if (!vh_mine(idx++)) continue;
				if (vh_time_up()) goto done;
				tcfg cfg = { 0 }; cfg.comp = CC[ci]; cfg.restart = r; cfg.block_size = 1024; cfg.prefix = (ni & 1) ? 13 : 0;
				static const size_t stems[] = { 126, 127, 128 };
				gen_cadence(&c, &cfg, fam, ns[ni], fam == 2 ? stems[st] : 0, vl ? 3 : 0);
				c.tool = (ci == 0 && ni >= 5);
				run_case(&c); tcase_free(&c);
			}
		}
	} else if (!strcmp(mode, "length")) {
		static const size_t LQ[] = { 0, 1, 127, 128, 129, 16383, 16384, 16385 }, LT[] = { 0, 1, 127, 128, 129, 16383, 16384, 16385, (1u << 21) - 1, 1u << 21 };
		const size_t *L = vh_thorough ? LT : LQ; int nL = vh_thorough ? 10 : 8;
		for (int ki = 0; ki < nL; ki++) for (int vi = 0; vi < nL; vi++) for (int mid = 0; mid < 2; mid++) for (int ci = 0; ci < 6; ci++) for (int ri = 0; ri < 2; ri++) {
			if (mid && L[ki] == 0) continue;
			if (!vh_mine(idx++)) continue;
			if (vh_time_up()) goto done;
			tcfg cfg = { 0 }; cfg.comp = comps[ci]; cfg.restart = ri ? 1 : 16; cfg.block_size = ri ? 1024 : 0; cfg.prefix = mid ? 13 : 0;
			gen_len(&c, &cfg, L[ki], L[vi], mid);
			c.tool = (ci == 0 && L[ki] < 70000 && L[vi] < 70000);
			run_case(&c); tcase_free(&c);
		}
	} else if (!strcmp(mode, "level")) {
		static const int LV[] = { INT_MIN, INT_MIN + 1, -131073, -131072, -131071, -10001, -10000, -9999, -100, -3, -2, -1, 0, 1, 2, 3, 4, 5, 6, 7, 8, 9, 10, 11, 12, 13, 14, 15, 16, 17, 18, 19, 20, 21, 22, 23, 24, 100, INT_MAX - 1, INT_MAX };
		for (int ci = 0; ci < 6; ci++) for (unsigned li = 0; li < sizeof LV / sizeof *LV; li++) for (int ri = 0; ri < 2; ri++) {
			if (!vh_mine(idx++)) continue;
			tcfg cfg = { 0 }; cfg.comp = comps[ci]; cfg.uselevel = true; cfg.level = LV[li]; cfg.block_size = 1024; cfg.restart = ri ? 2 : 16;
			gen_level(&c, &cfg); run_case(&c); tcase_free(&c);
		}
		/* option magnitudes: block sizes below the minimum (clamped to 1024), just above it, and at and beyond every 32-bit boundary - the
		 * trailer field and the accessors are 64-bit (seed R6-C10: one side of the trailer codec narrowed to 32 bits) */
		static const size_t OB[] = { 1, 1023, 1025, 65536, 0x7fffffffUL, 0x80000000UL, 0xffffffffUL, 0x100000000UL, 0x100000001UL, (1UL << 40) + 5, 1UL << 63, ~0UL };
		static const size_t OR[] = { 1, 16, 1000 };
		for (int ci = 0; ci < 6; ci++) for (unsigned bi = 0; bi < sizeof OB / sizeof *OB; bi++) for (unsigned ri = 0; ri < 3; ri++) for (int pf = 0; pf < 2; pf++) {
			if (!vh_mine(idx++)) continue;
			tcfg cfg = { 0 }; cfg.comp = comps[ci]; cfg.block_size = OB[bi]; cfg.restart = OR[ri]; cfg.prefix = pf ? 13 : 0;
			gen_level(&c, &cfg); c.tool = (ci == 0 && ri == 0); run_case(&c); tcase_free(&c);
		}
	} else if (!strcmp(mode, "sep16")) {
		nU16 = u16_gen(U16);
		for (size_t i = 0; i < nU16; i++) for (size_t j = i + 1; j < nU16; j++) {
			size_t d = 0; while (d < U16[i].n && d < U16[j].n && U16[i].b[d] == U16[j].b[d]) d++;
			if (d < U16[i].n && d < U16[j].n && U16[j].b[d] > U16[i].b[d] + 1) continue;
			if (!vh_mine(idx++)) continue;
			if (vh_time_up()) goto done;
			tcfg cfg = { 0 }; cfg.comp = (i + j) % 3 == 0 ? 3 : 0; cfg.restart = 16; cfg.block_size = 1024; cfg.prefix = (i & 1) ? 13 : 0;
			gen_pair16(&c, &cfg, (int) i, (int) j); run_case(&c); tcase_free(&c);
			if (vh_too_many()) goto done;
		}
	} else if (!strcmp(mode, "madvise")) {
		for (int mv = 0; mv < 4; mv++) for (unsigned mask = 0; mask < 512; mask++) {
			if (popcount9(mask) > 3) continue;
			if (!vh_mine(idx++)) continue;
			tcfg cfg = { 0 }; cfg.comp = mv & 1 ? 3 : 0; cfg.restart = 2; cfg.block_size = 1024; cfg.prefix = mv & 2 ? 13 : 0;
			unsigned nv = 1; for (int i = 0; i < popcount9(mask); i++) nv *= 3;
			for (unsigned vcode = 0; vcode < nv; vcode++) { gen_struct(&c, &cfg, 0, mask, vcode, 3, VS_Q); c.madvise = mv; sprintf(c.desc + strlen(c.desc), ":m%d", mv); run_case(&c); tcase_free(&c); }
		}
	}
done:
	if (g_pool) mtbl_threadpool_destroy(&g_pool);
	return vh_finish();
}
