/* canon_reader.h -- canonical hash of a reader iterator's private state.
 * Requires iter.c, block.c and reader.c of the repository to have been #included into this translation unit. */
#ifndef CANON_READER_H
#define CANON_READER_H
static uint64_t canon_bi(const struct block_iter *bi) {
	if (!bi) return 0x1111;
	uint64_t h = vh_mix(bi->current, bi->restart_index);
	h = vh_mix(h, bi->next ? (uint64_t) (bi->next - bi->data) : ~0ULL);
	h = vh_mix(h, bi->val ? (uint64_t) (bi->val - bi->data) : ~0ULL);
	h = vh_mix(h, bi->val_len);
	h = vh_hash(ubuf_data(bi->key), ubuf_size(bi->key), h);
	return h;
}
static uint64_t canon_reader_iter(const struct reader_iter *it) {
	uint64_t h = vh_mix(77, it->block_offset);
	h = vh_mix(h, it->first * 2 + it->valid);
	h = vh_mix(h, it->it_type);
	if (it->k) h = vh_hash(ubuf_data(it->k), ubuf_size(it->k), h);
	if (it->b) { h = vh_mix(h, it->b->size); h = vh_mix(h, it->b->restart_offset); h = vh_hash(it->b->data, it->b->size, h); } else h = vh_mix(h, 0xb10c);
	h = vh_mix(h, canon_bi(it->bi));
	h = vh_mix(h, canon_bi(it->index_iter));
	return h;
}
static bool is_reader_iter(const struct mtbl_iter *it) { return it && it->iter_next == reader_iter_next; }
#endif
