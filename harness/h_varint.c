/* C16: varint and fixed-width codecs -- bounded-exhaustive enumeration against an independent base-128 / little-endian reference. */
#include "vh.h"
#include <mtbl.h>

static unsigned ref_enc(uint64_t v, uint8_t *out) {
	unsigned n = 0;
	do { uint8_t g = v & 0x7f; v >>= 7; out[n++] = g | (v ? 0x80 : 0); } while (v);
	return n;
}

struct c64 { uint64_t v; int wide; };
static void render_v(char *b, size_t n, void *ctx) { struct c64 *c = ctx; snprintf(b, n, "%s:%" PRIu64, c->wide ? "v64" : "v32", c->v); }

static uint8_t *gbuf; /* exact-size heap buffers so that ASan sees any overrun */

static void check_v32(uint32_t v) {
	struct c64 c = { v, 0 };
	vh_case_begin(render_v, &c);
	uint8_t ref[10]; unsigned rn = ref_enc(v, ref);
	uint8_t *buf = gbuf + (16 - rn);             /* ends exactly at the end of a 16 byte allocation */
	size_t n = mtbl_varint_encode32(buf, v);
	if (n != rn || memcmp(buf, ref, rn)) vh_violation("enc32", "encode32 gives %zu bytes %s, standard base-128 is %u bytes %s", n, vh_hex(buf, n < 10 ? n : 10), rn, vh_hex(ref, rn));
	uint32_t back = ~v; size_t dn = mtbl_varint_decode32(buf, &back);
	if (dn != rn || back != v) vh_violation("dec32", "decode32(encode32(v)) = %u in %zu bytes", back, dn);
	uint64_t b64 = ~(uint64_t) v; dn = mtbl_varint_decode64(buf, &b64);
	if (dn != rn || b64 != v) vh_violation("dec64", "decode64(encode32(v)) = %" PRIu64 " in %zu bytes", b64, dn);
	if (mtbl_varint_length(v) != rn) vh_violation("len", "varint_length = %u, encoded %u", mtbl_varint_length(v), rn);
	if (mtbl_varint_length_packed(buf, rn) != rn) vh_violation("lenp", "varint_length_packed = %u, encoded %u", mtbl_varint_length_packed(buf, rn), rn);
	n = mtbl_varint_encode64(buf, v);
	if (n != rn || memcmp(buf, ref, rn)) vh_violation("enc64", "encode64 of a 32-bit value differs from encode32");
	VH_COUNT("transitions", 6); VH_COUNT("cases", 1);
	vh_sig(vh_mix(32, rn));
	vh_case_end();
}

static void check_v64(uint64_t v) {
	struct c64 c = { v, 1 };
	vh_case_begin(render_v, &c);
	uint8_t ref[10]; unsigned rn = ref_enc(v, ref);
	uint8_t *buf = gbuf + (16 - rn);
	size_t n = mtbl_varint_encode64(buf, v);
	if (n != rn || memcmp(buf, ref, rn)) vh_violation("enc64", "encode64 gives %zu bytes %s, standard base-128 is %u bytes %s", n, vh_hex(buf, n < 10 ? n : 10), rn, vh_hex(ref, rn));
	uint64_t back = ~v; size_t dn = mtbl_varint_decode64(buf, &back);
	if (dn != rn || back != v) vh_violation("dec64", "decode64(encode64(v)) = %" PRIu64 " in %zu bytes", back, dn);
	if (mtbl_varint_length(v) != rn) vh_violation("len", "varint_length = %u, encoded %u", mtbl_varint_length(v), rn);
	if (mtbl_varint_length_packed(buf, rn) != rn) vh_violation("lenp", "varint_length_packed = %u, encoded %u", mtbl_varint_length_packed(buf, rn), rn);
	if (v <= UINT32_MAX) {
		uint32_t b32; dn = mtbl_varint_decode32(buf, &b32);
		if (dn != rn || b32 != v) vh_violation("dec32", "decode32 = %u in %zu bytes", b32, dn);
	}
	VH_COUNT("transitions", 4); VH_COUNT("cases", 1);
	vh_sig(vh_mix(64, rn));
	vh_case_end();
}

/* fixed codecs at all alignments */
struct cfx { uint64_t v; int a, b; };
static void render_fx(char *b, size_t n, void *ctx) { struct cfx *c = ctx; snprintf(b, n, "fixed:%" PRIu64 ":%d:%d", c->v, c->a, c->b); }
static void check_fixed(uint64_t v, int a, int b) {
	struct cfx c = { v, a, b };
	vh_case_begin(render_fx, &c);
	uint8_t *d = malloc(a + 8), *s = malloc(b + 8);
	size_t n = mtbl_fixed_encode64(d + a, v);
	uint8_t ref[8]; for (int i = 0; i < 8; i++) ref[i] = (uint8_t) (v >> (8 * i));
	if (n != 8 || memcmp(d + a, ref, 8)) vh_violation("fx64", "fixed_encode64 bytes %s != little endian %s", vh_hex(d + a, 8), vh_hex(ref, 8));
	memcpy(s + b, ref, 8);
	if (mtbl_fixed_decode64(s + b) != v) vh_violation("fx64d", "fixed_decode64 = %" PRIu64, mtbl_fixed_decode64(s + b));
	free(d); free(s);
	d = malloc(a + 4); s = malloc(b + 4);
	uint32_t v32 = (uint32_t) (v ^ (v >> 32));
	n = mtbl_fixed_encode32(d + a, v32);
	for (int i = 0; i < 4; i++) ref[i] = (uint8_t) (v32 >> (8 * i));
	if (n != 4 || memcmp(d + a, ref, 4)) vh_violation("fx32", "fixed_encode32(%u) bytes %s != little endian %s", v32, vh_hex(d + a, 4), vh_hex(ref, 4));
	memcpy(s + b, ref, 4);
	if (mtbl_fixed_decode32(s + b) != v32) vh_violation("fx32d", "fixed_decode32 = %u want %u", mtbl_fixed_decode32(s + b), v32);
	free(d); free(s);
	VH_COUNT("transitions", 4); VH_COUNT("cases", 1);
	vh_sig(vh_mix(vh_mix(7, a), b));
	vh_case_end();
}

/* decoders on arbitrary (possibly over-long or truncated) byte strings */
struct cdec { const uint8_t *p; size_t n; };
static void render_dec(char *b, size_t n, void *ctx) { struct cdec *c = ctx; snprintf(b, n, "dec:%s", vh_hex(c->p, c->n)); }
static void check_dec(const uint8_t *str, size_t len) {
	struct cdec c = { str, len };
	vh_case_begin(render_dec, &c);
	uint8_t *buf = malloc(len ? len : 1);
	memcpy(buf, str, len);
	/* reference */
	size_t term = 0; bool has = false;
	for (size_t i = 0; i < len; i++) if (!(buf[i] & 0x80)) { term = i + 1; has = true; break; }
	/* the statement fixes the results only for standard-form encodings; on over-long or truncated byte strings the calls are made for
	 * memory safety (exact-size buffer under AddressSanitizer) and their results are not judged */
	bool canonical = has && term <= 10 && (term == 1 || buf[term - 1] != 0);
	if (canonical && term == 10 && buf[9] > 1) canonical = false;
	unsigned lp = mtbl_varint_length_packed(buf, len);
	if (canonical && lp != term) vh_violation("lenp", "varint_length_packed = %u on a standard-form encoding of %zu bytes", lp, term);
	VH_COUNT("transitions", 1);
	if ((has && term <= 10) || len >= 10) {
		uint64_t want = 0; size_t wl = 0;
		if (has && term <= 10) { for (size_t i = 0; i < term; i++) { if (7 * i < 64) want |= (uint64_t) (buf[i] & 0x7f) << (7 * i); } wl = term; }
		uint64_t got = 0x5555; size_t gl = mtbl_varint_decode64(buf, &got);
		if (canonical && (gl != wl || got != want)) vh_violation("dec64", "decode64 = %" PRIu64 "/%zu bytes, base-128 reference %" PRIu64 "/%zu", got, gl, want, wl);
		VH_COUNT("transitions", 1);
	}
	if ((has && term <= 5) || len >= 5) {
		uint64_t want = 0; size_t wl = 0;
		if (has && term <= 5) { for (size_t i = 0; i < term; i++) want |= (uint64_t) (buf[i] & 0x7f) << (7 * i); wl = term; }
		uint32_t got = 0x5555; size_t gl = mtbl_varint_decode32(buf, &got);
		if (canonical && term <= 5 && want <= 0xffffffffULL && (gl != wl || got != (uint32_t) want)) vh_violation("dec32", "decode32 = %u/%zu bytes, base-128 reference %u/%zu", got, gl, (uint32_t) want, wl);
		VH_COUNT("transitions", 1);
	}
	free(buf);
	VH_COUNT("cases", 1);
	vh_sig(vh_mix(vh_mix(99, len), has ? term : 77));
	vh_case_end();
}

static void v64_family(void (*f)(uint64_t)) {
	/* <= 2 bits set / clear */
	f(0); f(~0ULL);
	for (int i = 0; i < 64; i++) { f(1ULL << i); f(~(1ULL << i)); for (int j = i + 1; j < 64; j++) { f((1ULL << i) | (1ULL << j)); f(~((1ULL << i) | (1ULL << j))); } }
	for (int k = 1; k <= 9; k++) { uint64_t b = 1ULL << (7 * k); f(b - 1); f(b); f(b + 1); }
	f((1ULL << 63) - 1); f(1ULL << 63); f((1ULL << 63) + 1);
}
static uint64_t fam_idx;
static void v64_one(uint64_t v) { if (vh_mine(fam_idx++)) check_v64(v); }
static void fx_one(uint64_t v) { if (vh_mine(fam_idx++)) for (int a = 0; a < 8; a++) for (int b = 0; b < 8; b++) check_fixed(v, a, b); }

int main(int argc, char **argv) {
	vh_init(argc, argv);
	gbuf = malloc(16);
	if (vh_case_arg) {
		uint64_t v; int a, b; uint8_t tmp[64];
		if (sscanf(vh_case_arg, "v32:%" SCNu64, &v) == 1) check_v32((uint32_t) v);
		else if (sscanf(vh_case_arg, "v64:%" SCNu64, &v) == 1) check_v64(v);
		else if (sscanf(vh_case_arg, "fixed:%" SCNu64 ":%d:%d", &v, &a, &b) == 3) check_fixed(v, a, b);
		else if (!strncmp(vh_case_arg, "dec:", 4)) { size_t n = vh_unhex(vh_case_arg + 4, tmp, sizeof tmp); check_dec(tmp, n); }
		return vh_finish();
	}
	const char *mode = vh_arg(0, "all");
	bool all = !strcmp(mode, "all");
	if (all || !strcmp(mode, "v32")) {
		if (vh_thorough) {
			/* all 2^32 values, sharded by 2^20-value stripes */
			for (uint64_t stripe = 0; stripe < 4096 && !vh_too_many(); stripe++) {
				if (!vh_mine(stripe)) continue;
				if (vh_time_up()) break;
				for (uint64_t v = stripe << 20; v < (stripe + 1) << 20; v++) check_v32((uint32_t) v);
			}
			vh_count("v32_exhaustive_full_range", vh_shard == 0);
		} else {
			for (uint64_t stripe = 0; stripe < 64; stripe++) {     /* all values below 2^22 */
				if (!vh_mine(stripe)) continue;
				for (uint64_t v = stripe << 16; v < (stripe + 1) << 16; v++) check_v32((uint32_t) v);
			}
			if (vh_shard == 0) {
				for (int k = 1; k <= 4; k++) { uint64_t b = 1ULL << (7 * k); for (uint64_t v = b - 4096; v <= b + 4096; v++) check_v32((uint32_t) v); }
				for (uint64_t v = 0xffffffffULL - 8192; v <= 0xffffffffULL; v++) check_v32((uint32_t) v);
			}
		}
		if (vh_shard == 0) { vh_sample("v32:%u", 127u); vh_sample("v32:%u", 128u); vh_sample("v32:%u", 0xffffffffu); }
	}
	if (all || !strcmp(mode, "v64")) {
		fam_idx = 0; v64_family(v64_one);
		/* ten 7-bit groups from {0,1,0x40,0x7f}: 4^10 values (top group limited to 1 bit) */
		static const uint8_t G[4] = { 0, 1, 0x40, 0x7f };
		for (uint32_t code = 0; code < (1u << 20); code++) {
			if (!vh_mine(code >> 8)) continue;
			uint64_t v = 0;
			for (int g = 0; g < 10; g++) v |= (uint64_t) (G[(code >> (2 * g)) & 3] & (g == 9 ? 1 : 0x7f)) << (7 * g);
			check_v64(v);
		}
		if (vh_shard == 0) vh_sample("v64:%" PRIu64, (uint64_t) 1 << 63);
	}
	if (all || !strcmp(mode, "fixed")) {
		fam_idx = 0; v64_family(fx_one);
	}
	if (all || !strcmp(mode, "dec")) {
		/* every byte string of length <= 3 */
		uint8_t s[16];
		for (uint32_t x = 0; x < (1u << 24); x++) {
			if (!vh_mine(x >> 12)) continue;
			s[0] = x; s[1] = x >> 8; s[2] = x >> 16;
			if (x < 256) check_dec(s, 1);
			if (x < 65536) check_dec(s, 2);
			check_dec(s, 3);
		}
		if (vh_shard == 0) check_dec(s, 0);
		/* strings over {00,01,7f,80,ff} up to length 9 (quick) / 11 (thorough) */
		static const uint8_t A[5] = { 0x00, 0x01, 0x7f, 0x80, 0xff };
		int maxlen = vh_thorough ? 11 : 9;
		for (int len = 4; len <= maxlen; len++) {
			uint64_t total = 1; for (int i = 0; i < len; i++) total *= 5;
			for (uint64_t x = 0; x < total; x++) {
				if (!vh_mine(x / 625)) continue;
				uint64_t y = x; for (int i = 0; i < len; i++) { s[i] = A[y % 5]; y /= 5; }
				check_dec(s, len);
			}
			if (vh_time_up()) break;
		}
		if (vh_shard == 0) vh_sample("dec:8080808080808080808001");
	}
	return vh_finish();
}
