/* C18: any sequence of API calls that ends with every created object destroyed leaves no descriptor, mapping, temp file or
 * heap allocation behind.  Scenario scripts with every abandon point; each scenario is run three times and the process-wide
 * ledgers (heap bytes in use per the sanitizer allocator, open descriptors, library mappings via the mmap seam in reader.c,
 * directory listing of the sorter temp dir) must not grow between the second and third run. */
#include "tbl.h"
#include <dirent.h>
#include <pthread.h>
size_t __sanitizer_get_current_allocated_bytes(void);
#include <sanitizer/lsan_interface.h>

/* ---- ledgers ---- */
/* mappings are accounted in pages, not in calls: an munmap() that is shorter than the mmap() it answers leaves the tail pages mapped (seed R7-C18) */
static long live_maps; static pthread_mutex_t map_mu = PTHREAD_MUTEX_INITIALIZER;
static long map_pages(size_t len) { return (long) ((len + 4095) / 4096); }
void *vf_mmap(void *a, size_t len, int prot, int flags, int fd, off_t off);
int vf_munmap(void *a, size_t len);
void *vf_mmap(void *a, size_t len, int prot, int flags, int fd, off_t off) { void *p = mmap(a, len, prot, flags, fd, off); if (p != MAP_FAILED) { pthread_mutex_lock(&map_mu); live_maps += map_pages(len); pthread_mutex_unlock(&map_mu); } return p; }
int vf_munmap(void *a, size_t len) { pthread_mutex_lock(&map_mu); live_maps -= map_pages(len); pthread_mutex_unlock(&map_mu); return munmap(a, len); }
static int count_fds(void) { DIR *d = opendir("/proc/self/fd"); int n = 0; struct dirent *e; while ((e = readdir(d))) if (e->d_name[0] != '.') n++; closedir(d); return n - 1; }
static int count_threads(void) { DIR *d = opendir("/proc/self/task"); int n = 0; struct dirent *e; while ((e = readdir(d))) if (e->d_name[0] != '.') n++; closedir(d); return n; }
/* a joined thread can linger in /proc/self/task for a moment after pthread_join returns: wait for the count to settle */
static int settled_threads(int expect) {
	int n = count_threads();
	for (int i = 0; i < 400 && n > expect; i++) { usleep(5000); n = count_threads(); }
	return n;
}
static int count_dir(const char *p) { DIR *d = opendir(p); if (!d) return -1; int n = 0; struct dirent *e; while ((e = readdir(d))) if (strcmp(e->d_name, ".") && strcmp(e->d_name, "..")) n++; closedir(d); return n; }
static char g_tmp[300]; static char g_fsdir[300];

static void fold_merge(void *clos, const uint8_t *key, size_t kl, const uint8_t *v0, size_t l0, const uint8_t *v1, size_t l1, uint8_t **out, size_t *outl) {
	int *failkey = clos;
	if (failkey && *failkey >= 0 && kl >= 1 && key[0] == 'a' + *failkey) { *out = NULL; *outl = 0; return; }
	*outl = l0 + l1 + 3; *out = malloc(*outl);
	(*out)[0] = '('; memcpy(*out + 1, v0, l0); (*out)[1 + l0] = '+'; memcpy(*out + 2 + l0, v1, l1); (*out)[2 + l0 + l1] = ')';
}

/* ---- scenarios: (family, variant, stop point). Each returns after destroying everything it created. ---- */
typedef struct { char fam; int var; int stop; int order; } rcase;
static void render(char *b, size_t n, void *ctx) { rcase *c = ctx; snprintf(b, n, "L:%c:%d:%d:%d", c->fam, c->var, c->stop, c->order); }
static int g_steps;        /* number of abandon points the last run passed (to learn K) */
#define POINT() do { if (g_steps++ == c->stop) goto out; } while (0)

static int table_fd(int nblocks, int comp) {
	tkv e[4]; uint8_t k[4][2]; uint8_t *v[4];
	for (int i = 0; i < nblocks; i++) { k[i][0] = 'a' + i; k[i][1] = 'x'; v[i] = tbl_val(i + 1, 600); e[i] = (tkv) { k[i], 2, v[i], 600 }; }
	tcfg cfg = { 0 }; cfg.comp = comp; cfg.block_size = 1024;
	int fd = tbl_write(&cfg, e, nblocks, NULL);
	for (int i = 0; i < nblocks; i++) free(v[i]);
	return fd;
}

static void sc_writer(rcase *c) {
	int fd = tbl_memfd(); struct mtbl_writer *w = NULL; struct mtbl_writer_options *o = mtbl_writer_options_init();
	static const int comps[] = { 0, 2, 3, 5 };
	mtbl_writer_options_set_compression(o, comps[c->var % 4]); mtbl_writer_options_set_block_size(o, 1024);
	uint8_t *big = tbl_val(3, 700);
	POINT();
	w = mtbl_writer_init_fd(fd, o); POINT();
	mtbl_writer_add(w, (uint8_t *) "b", 1, big, 700); POINT();
	mtbl_writer_add(w, (uint8_t *) "a", 1, big, 5); POINT();                 /* refused */
	mtbl_writer_add(w, (uint8_t *) "c", 1, big, 700); POINT();               /* cuts a block */
	mtbl_writer_add(w, (uint8_t *) "c", 1, big, 1); POINT();                 /* refused */
	mtbl_writer_add(w, (uint8_t *) "d", 1, big, 0); POINT();
out:
	if (c->order) { mtbl_writer_options_destroy(&o); o = NULL; }
	mtbl_writer_destroy(&w);
	if (o) mtbl_writer_options_destroy(&o);
	free(big); close(fd);
}
static void sc_reader(rcase *c) {
	/* var: 0..2 table kinds (3 blocks none / lz4 / zlib), 3 non-table, 4 short file, 5 empty table */
	int fd = -1; struct mtbl_reader *r = NULL; struct mtbl_iter *it[5] = { 0 }; const uint8_t *k, *v; size_t kl, vl;
	if (c->var <= 2) fd = table_fd(3, c->var == 0 ? 0 : c->var == 1 ? 3 : 2);
	else if (c->var == 3) { uint8_t junk[700]; memset(junk, 'j', sizeof junk); fd = tbl_fd_from_bytes(junk, sizeof junk); }
	else if (c->var == 4) fd = tbl_fd_from_bytes((const uint8_t *) "short", 5);
	else fd = table_fd(0, 0);
	POINT();
	struct mtbl_reader_options *ro = mtbl_reader_options_init(); mtbl_reader_options_set_verify_checksums(ro, c->order);
	r = mtbl_reader_init_fd(fd, ro); mtbl_reader_options_destroy(&ro); POINT();
	if (r) {
		const struct mtbl_source *s = mtbl_reader_source(r);
		it[0] = mtbl_source_iter(s); POINT();
		it[1] = mtbl_source_get(s, (uint8_t *) "bx", 2); POINT();
		it[2] = mtbl_source_get(s, (uint8_t *) "zz", 2); POINT();              /* miss */
		it[3] = mtbl_source_get_prefix(s, (uint8_t *) "c", 1); POINT();
		it[4] = mtbl_source_get_range(s, (uint8_t *) "ax", 2, (uint8_t *) "bx", 2); POINT();
		for (int i = 0; i < 5; i++) { mtbl_iter_next(it[i], &k, &kl, &v, &vl); POINT(); }      /* advanced once */
		mtbl_iter_seek(it[0], (uint8_t *) "cx", 2); POINT();
		for (int i = 0; i < 5; i++) { while (mtbl_iter_next(it[i], &k, &kl, &v, &vl) == mtbl_res_success) {} POINT(); }   /* drained */
	}
out:
	for (int i = 0; i < 5; i++) mtbl_iter_destroy(&it[c->order ? 4 - i : i]);
	mtbl_reader_destroy(&r);
	close(fd);
}
static void sc_merger(rcase *c) {
	/* var bit0: merge function; var>>1: failing key (0 = none, 1 = 'a', 2 = 'b') */
	int fd[2] = { table_fd(3, 0), table_fd(2, 3) }; struct mtbl_reader *r[2] = { 0 }; struct mtbl_merger *m = NULL; struct mtbl_iter *it[3] = { 0 };
	const uint8_t *k, *v; size_t kl, vl; static int failkey; failkey = (c->var >> 1) - 1;
	struct mtbl_merger_options *mo = mtbl_merger_options_init();
	if (c->var & 1) mtbl_merger_options_set_merge_func(mo, fold_merge, &failkey);
	POINT();
	r[0] = mtbl_reader_init_fd(fd[0], NULL); r[1] = mtbl_reader_init_fd(fd[1], NULL); POINT();
	m = mtbl_merger_init(mo); POINT();
	mtbl_merger_add_source(m, mtbl_reader_source(r[0])); mtbl_merger_add_source(m, mtbl_reader_source(r[1])); POINT();
	it[0] = mtbl_source_iter(mtbl_merger_source(m)); POINT();
	for (int i = 0; i < 6; i++) { mtbl_iter_next(it[0], &k, &kl, &v, &vl); POINT(); }
	it[1] = mtbl_source_get(mtbl_merger_source(m), (uint8_t *) "ax", 2); POINT();
	it[2] = mtbl_source_get_prefix(mtbl_merger_source(m), (uint8_t *) "q", 1); POINT();    /* NULL iterator */
	mtbl_iter_next(it[1], &k, &kl, &v, &vl); POINT();
	mtbl_iter_seek(it[0], (uint8_t *) "", 0); POINT();
	mtbl_iter_next(it[0], &k, &kl, &v, &vl); POINT();
	{ int wfd = tbl_memfd(); struct mtbl_writer *w = mtbl_writer_init_fd(wfd, NULL); mtbl_source_write(mtbl_merger_source(m), w); mtbl_writer_destroy(&w); close(wfd); } POINT();
out:
	for (int i = 0; i < 3; i++) mtbl_iter_destroy(&it[i]);
	mtbl_merger_options_destroy(&mo);
	if (c->order) { mtbl_reader_destroy(&r[0]); mtbl_reader_destroy(&r[1]); mtbl_merger_destroy(&m); }
	else { mtbl_merger_destroy(&m); mtbl_reader_destroy(&r[1]); mtbl_reader_destroy(&r[0]); }
	close(fd[0]); close(fd[1]);
}
static void sc_sorter(rcase *c) {
	/* var: bits0-1 budget class (0: everything in memory, 1: 3 entries/chunk, 2: 1 entry/chunk), bits2-3 pool (0 none, 1 two threads, 2 a pool object with zero threads), bits4-5 failing key (0 none, 1 'a', 2 'b') */
	int budget = c->var & 3, pool = (c->var >> 2) & 3; static int failkey; failkey = ((c->var >> 4) & 3) - 1;
	struct mtbl_threadpool *tp = pool == 1 ? mtbl_threadpool_init(2) : pool == 2 ? mtbl_threadpool_init(0) : NULL;
	struct mtbl_sorter_options *so = mtbl_sorter_options_init();
	mtbl_sorter_options_set_temp_dir(so, g_tmp);
	mtbl_sorter_options_set_max_memory(so, budget == 0 ? 100000 : budget == 1 ? 2 * 19 + 1 : 1);
	mtbl_sorter_options_set_merge_func(so, fold_merge, &failkey);
	if (tp) mtbl_sorter_options_set_threadpool(so, tp);
	struct mtbl_sorter *s = NULL; struct mtbl_iter *it = NULL; const uint8_t *k, *v; size_t kl, vl;
	POINT();
	s = mtbl_sorter_init(so); POINT();
	static const char *keys[] = { "b", "a", "a", "c", "b", "a" };
	for (int i = 0; i < 6; i++) { char val[4]; sprintf(val, "t%d", i); mtbl_sorter_add(s, (const uint8_t *) keys[i], 1, (const uint8_t *) val, 2); POINT(); }
	if (c->order == 1) { int wfd = tbl_memfd(); struct mtbl_writer *w = mtbl_writer_init_fd(wfd, NULL); mtbl_sorter_write(s, w); mtbl_writer_destroy(&w); close(wfd); POINT(); }
	else {
		it = mtbl_sorter_iter(s); POINT();
		for (int i = 0; i < 4; i++) { mtbl_iter_next(it, &k, &kl, &v, &vl); POINT(); }
		mtbl_sorter_add(s, (const uint8_t *) "z", 1, (const uint8_t *) "late", 4); POINT();
	}
out:
	mtbl_iter_destroy(&it);
	mtbl_sorter_destroy(&s);
	mtbl_sorter_options_destroy(&so);
	if (tp) mtbl_threadpool_destroy(&tp);
}
static bool name_filter(const char *fname, void *clos) { (void) clos; return strstr(fname, "f2") == NULL; }
static void sc_fileset(rcase *c) {
	char p[400], t[400]; snprintf(p, sizeof p, "%s/set", g_fsdir); snprintf(t, sizeof t, "%s/set.tmp", g_fsdir);
	static int serial;
	{ FILE *f = fopen(t, "w"); fputs("f1.mtbl\nf2.mtbl\n", f); fclose(f); struct timespec ts[2] = { { 2000000 + ++serial * 10, 0 }, { 2000000 + serial * 10, 0 } }; utimensat(AT_FDCWD, t, ts, 0); rename(t, p); }
	struct mtbl_fileset *A = NULL, *B = NULL; struct mtbl_iter *it[3] = { 0 }; const uint8_t *k, *v; size_t kl, vl;
	struct mtbl_fileset_options *o = mtbl_fileset_options_init(); mtbl_fileset_options_set_reload_interval(o, 0);
	if (c->var & 1) mtbl_fileset_options_set_merge_func(o, fold_merge, NULL);
	POINT();
	A = mtbl_fileset_init(p, o); POINT();
	mtbl_fileset_options_set_filename_filter_func(o, name_filter, NULL);
	B = mtbl_fileset_dup(A, o); POINT();
	it[0] = mtbl_source_iter(mtbl_fileset_source(A)); POINT();
	mtbl_iter_next(it[0], &k, &kl, &v, &vl); POINT();
	it[1] = mtbl_source_get(mtbl_fileset_source(B), (uint8_t *) "s", 1); POINT();
	{ FILE *f = fopen(t, "w"); fputs("f2.mtbl\nf3.mtbl\njunk\nmissing\n", f); fclose(f); struct timespec ts[2] = { { 2000000 + ++serial * 10, 0 }, { 2000000 + serial * 10, 0 } }; utimensat(AT_FDCWD, t, ts, 0); rename(t, p); }
	mtbl_fileset_reload_now(A); POINT();                 /* deferred: iterators open */
	mtbl_iter_destroy(&it[0]); POINT();
	mtbl_iter_destroy(&it[1]); POINT();                  /* last close: reload happens */
	mtbl_fileset_reload_now(B); POINT();
	it[2] = mtbl_source_get_prefix(mtbl_fileset_source(B), (uint8_t *) "m", 1); POINT();
	while (mtbl_iter_next(it[2], &k, &kl, &v, &vl) == mtbl_res_success) {} POINT();
	if (c->var & 2) { struct mtbl_merger *m1, *m2; mtbl_iter_destroy(&it[2]); { FILE *f = fopen(t, "w"); fputs("f1.mtbl\nf3.mtbl\n", f); fclose(f); struct timespec ts[2] = { { 2000000 + ++serial * 10, 0 }, { 2000000 + serial * 10, 0 } }; utimensat(AT_FDCWD, t, ts, 0); rename(t, p); } mtbl_fileset_reload_now(A); mtbl_fileset_partition(A, name_filter, NULL, &m1, &m2); mtbl_merger_destroy(&m1); mtbl_merger_destroy(&m2); POINT(); }
out:
	for (int i = 0; i < 3; i++) mtbl_iter_destroy(&it[i]);
	mtbl_fileset_options_destroy(&o);
	if (c->order) { mtbl_fileset_destroy(&A); mtbl_fileset_destroy(&B); } else { mtbl_fileset_destroy(&B); mtbl_fileset_destroy(&A); }
}
static void sc_pool(rcase *c) {
	/* pooled writer(s) sharing a pool, destroyed at every point */
	struct mtbl_threadpool *tp = mtbl_threadpool_init(c->var % 4);      /* 0 = a pool object with threading disabled */ int fd[2] = { tbl_memfd(), tbl_memfd() }; struct mtbl_writer *w[2] = { 0 };
	struct mtbl_writer_options *o = mtbl_writer_options_init(); mtbl_writer_options_set_block_size(o, 1024); mtbl_writer_options_set_threadpool(o, tp); mtbl_writer_options_set_compression(o, MTBL_COMPRESSION_LZ4);
	uint8_t *big = tbl_val(9, 700);
	POINT();
	w[0] = mtbl_writer_init_fd(fd[0], o); POINT();
	w[1] = mtbl_writer_init_fd(fd[1], o); POINT();
	for (int i = 0; i < 4; i++) { uint8_t k[2] = { 'k', (uint8_t) ('0' + i) }; mtbl_writer_add(w[i & 1], k, 2, big, 700); mtbl_writer_add(w[0], k, 2, big, 700); POINT(); }
out:
	if (c->order) { mtbl_writer_destroy(&w[0]); mtbl_writer_destroy(&w[1]); } else { mtbl_writer_destroy(&w[1]); mtbl_writer_destroy(&w[0]); }
	mtbl_writer_options_destroy(&o); mtbl_threadpool_destroy(&tp);
	free(big); close(fd[0]); close(fd[1]);
}
/* reader opened and destroyed on tables whose total file size sits at every interesting residue modulo the page size (the trailer is 512 bytes:
 * lengths derived from "size minus trailer" change their page count exactly when the residue is 1..512) */
static void sc_size(rcase *c) {
	static const size_t RES[] = { 0, 1, 2, 255, 511, 512, 513, 2048, 4095 };
	tkv e[1]; uint8_t *v = tbl_val(1, 40); e[0] = (tkv) { (const uint8_t *) "k", 1, v, 40 };
	tcfg cfg = { 0 }; cfg.block_size = 1024;
	int fd0 = tbl_write(&cfg, e, 1, NULL); struct stat st; fstat(fd0, &st); close(fd0);
	cfg.prefix = (RES[c->var % 9] + 8192 - (size_t) st.st_size % 4096) % 4096;
	int fd = tbl_write(&cfg, e, 1, NULL); free(v);
	struct mtbl_reader *r = NULL; struct mtbl_iter *it = NULL; const uint8_t *k, *vv; size_t kl, vl;
	POINT();
	r = mtbl_reader_init_fd(fd, NULL); POINT();
	if (r) { it = mtbl_source_iter(mtbl_reader_source(r)); POINT(); mtbl_iter_next(it, &k, &kl, &vv, &vl); POINT(); }
out:
	if (it) mtbl_iter_destroy(&it);
	if (r) mtbl_reader_destroy(&r);
	close(fd);
}
static void run_scenario(rcase *c) {
	g_steps = 0;
	switch (c->fam) {
	case 'W': sc_writer(c); break; case 'R': sc_reader(c); break; case 'M': sc_merger(c); break;
	case 'S': sc_sorter(c); break; case 'F': sc_fileset(c); break; case 'P': sc_pool(c); break; case 'Z': sc_size(c); break;
	}
}

static uint64_t n_leakfree;
static void check_case(rcase *c) {
	vh_case_begin(render, c);
	size_t heap[4]; int fds[4], thr[4]; long maps[4];
	sigjmp_buf jb; bool aborted = false;
	int thr0 = count_threads();         /* threads alive before the scenario; wait briefly for stragglers of the previous one */
	for (int i = 0; i < 20; i++) { usleep(2000); int n = count_threads(); if (n == thr0) break; thr0 = n; }
	for (int rep = 0; rep < 3 && !aborted; rep++) {
		if (VH_TRY_ASSERT(jb)) { run_scenario(c); VH_END_ASSERT(); } else aborted = true;
		heap[rep] = __sanitizer_get_current_allocated_bytes(); fds[rep] = count_fds(); maps[rep] = live_maps; thr[rep] = settled_threads(thr0);
	}
	if (aborted) {
		/* a library assertion stopped the scenario: this is "the process stops", not a call sequence that ends with everything destroyed */
		VH_COUNT("scenarios_stopped_by_assertion", 1);
	} else {
		if (heap[2] != heap[1]) { vh_violation("heap", "heap bytes in use grow by %zd on every repetition of the scenario (leak)", (ssize_t) (heap[2] - heap[1])); __lsan_do_recoverable_leak_check(); }
		if (fds[2] != fds[1]) vh_violation("fd", "open descriptors grow by %d on every repetition of the scenario", fds[2] - fds[1]);
		if (maps[2] != maps[1]) vh_violation("mapping", "mapped pages of reader mappings grow by %ld on every repetition of the scenario", maps[2] - maps[1]);
		if (thr[2] > thr0 && thr[2] > thr[1]) vh_violation("thread", "%d thread(s) more than before the scenario are still alive 2 s after everything was destroyed, and the number grows with every repetition", thr[2] - thr0);
		int left = count_dir(g_tmp); if (left != 0) vh_violation("tempfile", "%d files left in the sorter temp dir", left);
		n_leakfree++;
	}
	VH_COUNT("cases", 1); VH_COUNT("states", 1); VH_COUNT("transitions", 3 * (g_steps + 1));
	vh_sig(vh_mix(vh_mix(c->fam, c->var), c->order));
	vh_case_end();
}

int main(int argc, char **argv) {
	vh_init(argc, argv);
	snprintf(g_tmp, sizeof g_tmp, "%s/res-tmp.%d", access("/dev/shm", W_OK) == 0 ? "/dev/shm" : "/var/tmp", (int) getpid()); mkdir(g_tmp, 0700);
	snprintf(g_fsdir, sizeof g_fsdir, "%s/res-fs.%d", access("/dev/shm", W_OK) == 0 ? "/dev/shm" : "/var/tmp", (int) getpid()); mkdir(g_fsdir, 0700);
	for (int i = 1; i <= 3; i++) { char p[400]; snprintf(p, sizeof p, "%s/f%d.mtbl", g_fsdir, i); struct mtbl_writer *w = mtbl_writer_init(p, NULL); char mk[3] = { 'm', (char) ('0' + i), 0 }; mtbl_writer_add(w, (uint8_t *) mk, 2, (uint8_t *) "v", 1); mtbl_writer_add(w, (uint8_t *) "s", 1, (uint8_t *) mk, 2); mtbl_writer_destroy(&w); }
	{ char p[400]; snprintf(p, sizeof p, "%s/junk", g_fsdir); FILE *f = fopen(p, "w"); fputs("not a table\n", f); fclose(f); }
	rcase c;
	if (vh_case_arg) { if (sscanf(vh_case_arg, "L:%c:%d:%d:%d", &c.fam, &c.var, &c.stop, &c.order) == 4) check_case(&c); goto done; }
	static const struct { char fam; int nvar; int norder; } FAM[] = { { 'W', 4, 2 }, { 'R', 6, 2 }, { 'M', 6, 2 }, { 'S', 64, 2 }, { 'F', 4, 2 }, { 'P', 4, 2 }, { 'Z', 9, 1 } };
	uint64_t idx = 0;
	for (unsigned f = 0; f < sizeof FAM / sizeof *FAM; f++) for (int var = 0; var < FAM[f].nvar; var++) for (int order = 0; order < FAM[f].norder; order++) {
		if (FAM[f].fam == 'S' && (var & 3) == 3) continue;
		if (FAM[f].fam == 'S' && (((var >> 2) & 3) == 3 || ((var >> 4) & 3) == 3)) continue;
		/* learn the number of abandon points */
		c = (rcase) { FAM[f].fam, var, 1 << 30, order };
		sigjmp_buf jb; int K = 0;
		if (VH_TRY_ASSERT(jb)) { run_scenario(&c); VH_END_ASSERT(); K = g_steps; } else K = g_steps;
		for (int stop = 0; stop <= K; stop++) {
			if (!vh_mine(idx++)) continue;
			if (vh_time_up() || vh_too_many()) goto done;
			c.stop = stop == K ? (1 << 30) : stop;
			check_case(&c);
		}
	}
done:
	vh_count("scenarios_checked_leak_free", n_leakfree);
	if (vh_shard == 0) vh_sample("L:S:18:5:0 = sorter, 1 entry per chunk, no pool, merge callback failing for key 'a', abandoned after the 4th add, iterator path");
	{ char cmd[700]; snprintf(cmd, sizeof cmd, "rm -rf '%s' '%s'", g_tmp, g_fsdir); if (system(cmd)) {} }
	return vh_finish();
}
