/* C11: every well-formed MTBL file is readable -- files are built by the independent encoder (icodec.h) with every legal choice of
 * block partition, restart positions, amount of prefix sharing, index separator, format version, compression and foreign prefix;
 * the real reader must return exactly the encoded entries for iteration, lookups and seeks.
 * mode "restart64": block images larger than 4 GiB (64-bit restart arrays) handed to block_init/block_iter directly. */
#include "tbl.h"
#include "mtbl-private.h"

#define MAXN 5
/* second key pool: long common prefixes, so that "share less than the longest common prefix" has room (LCPs 2, 4, 5, 3, 0) */
static const struct { uint8_t b[8]; size_t n; } K2[6] = { { "ab", 2 }, { "abab", 4 }, { "ababab", 6 }, { "ababac", 6 }, { "abac", 4 }, { "b", 1 } };
typedef struct {
	int n; int key[MAXN];              /* indices into K9, or 100 + index into K2 */
	unsigned cutmask;                   /* bit i set: a block boundary after entry i */
	unsigned restartmask;               /* bit i set: entry i is a restart point (entry 0 of each block always is) */
	int share[MAXN];                    /* 0 = share nothing, 1 = lcp-1 (if lcp>0), 2 = full lcp */
	int sep[MAXN];                      /* separator choice per block: 0 = last key, 1 = last key + 00, 2 = upper end (just below next first key / last key + ff) , 3 = shortest in between */
	int version, comp; size_t prefix;
} ecase;
static void render(char *b, size_t n, void *ctx) {
	ecase *c = ctx; int o = snprintf(b, n, "E:%d:%d:%zu:%u:%u:", c->version, c->comp, c->prefix, c->cutmask, c->restartmask);
	for (int i = 0; i < c->n; i++) o += snprintf(b + o, n - o, "%d.%d.%d,", c->key[i], c->share[i], c->sep[i]);
}
static size_t lcp(const uint8_t *a, size_t al, const uint8_t *b, size_t bl) { size_t l = 0; while (l < al && l < bl && a[l] == b[l]) l++; return l; }

/* build the file image; returns malloc'd bytes */
static uint8_t *build(const ecase *c, size_t *outlen, tkv *ents, uint8_t vals[][8]) {
	ic_buf f = { 0 };
	for (size_t i = 0; i < c->prefix; i++) { uint8_t b = tbl_prefix_byte(i); ic_buf_put(&f, &b, 1); }
	ic_enc_ent idx[MAXN]; uint8_t offv[MAXN][10]; static uint8_t sepk[MAXN][12]; int nidx = 0;
	uint64_t bytes_data = 0, nk = 0, nv = 0;
	int start = 0;
	for (int i = 0; i < c->n; i++) { size_t vl = 1 + (i % 3); memset(vals[i], 'A' + i, vl); ents[i] = c->key[i] >= 100 ? (tkv) { K2[c->key[i] - 100].b, K2[c->key[i] - 100].n, vals[i], vl } : (tkv) { TBL_K9[c->key[i]].b, TBL_K9[c->key[i]].n, vals[i], vl }; nk += ents[i].kl; nv += vl; }
	for (int i = 0; i < c->n; i++) {
		bool last_of_block = (i == c->n - 1) || (c->cutmask >> i & 1);
		if (!last_of_block) continue;
		ic_enc_ent be[MAXN]; int m = 0;
		for (int j = start; j <= i; j++, m++) {
			be[m] = (ic_enc_ent) { ents[j].k, ents[j].kl, ents[j].v, ents[j].vl, j == start || (c->restartmask >> j & 1), 0 };
			if (!be[m].restart) { size_t l = lcp(ents[j - 1].k, ents[j - 1].kl, ents[j].k, ents[j].kl); be[m].shared = c->share[j] == 0 ? 0 : c->share[j] == 1 ? (l ? (uint32_t) l - 1 : 0) : c->share[j] == 3 ? (l ? 1 : 0) : (uint32_t) l; }
		}
		ic_buf blk = { 0 }; ic_enc_block(&blk, be, m);
		uint64_t off = f.n; ic_enc_store(&f, blk.p, blk.n, c->comp, c->version); bytes_data += f.n - off; free(blk.p);
		/* separator: last key <= sep < first key of next block (last block: >= last key) */
		const tkv *lk = &ents[i]; uint8_t *s = sepk[nidx]; size_t sl = lk->kl; memcpy(s, lk->k, sl);
		int choice = c->sep[nidx];
		if (choice == 1) { s[sl++] = 0x00; }
		else if (choice == 2) { if (i == c->n - 1) { s[sl++] = 0xff; s[sl++] = 0xff; } else { const tkv *nx = &ents[i + 1]; /* just below nx: nx with last byte-1 then ff.. ; if nx ends in 00 drop that byte */ sl = nx->kl; memcpy(s, nx->k, sl); if (s[sl - 1] == 0) sl--; else { s[sl - 1]--; s[sl++] = 0xff; s[sl++] = 0xff; } } }
		else if (choice == 3 && i < c->n - 1) { const tkv *nx = &ents[i + 1]; size_t l = lcp(lk->k, lk->kl, nx->k, nx->kl); if (l < lk->kl && l < nx->kl && lk->k[l] + 1 < nx->k[l]) { sl = l + 1; s[l] = lk->k[l] + 1; } }
		/* keep it legal */
		if (vh_bscmp(s, sl, lk->k, lk->kl) < 0 || (i < c->n - 1 && vh_bscmp(s, sl, ents[i + 1].k, ents[i + 1].kl) >= 0)) { sl = lk->kl; memcpy(s, lk->k, sl); }
		idx[nidx] = (ic_enc_ent) { s, sl, offv[nidx], ic_putvar(offv[nidx], off), true, 0 };
		/* index block entries may share prefixes too */
		if (nidx > 0 && (c->restartmask >> (8 + nidx) & 1) == 0) { idx[nidx].restart = false; idx[nidx].shared = (uint32_t) lcp(idx[nidx - 1].k, idx[nidx - 1].kl, s, sl); }
		nidx++; start = i + 1;
	}
	ic_buf ib = { 0 }; ic_enc_block(&ib, idx, nidx);
	uint64_t ioff = f.n; ic_enc_store(&f, ib.p, ib.n, IC_NONE, c->version); free(ib.p);
	uint64_t fields[9] = { ioff, 8192, (uint64_t) c->comp, (uint64_t) c->n, (uint64_t) nidx, bytes_data, f.n - ioff, nk, nv };
	ic_enc_trailer(&f, c->version, fields);
	*outlen = f.n; return f.p;
}

static u5key U[80]; static size_t nU;
static uint64_t n_files, n_lookups;
static void check(ecase *c) {
	vh_case_begin(render, c);
	tkv e[MAXN]; uint8_t vals[MAXN][8]; size_t len;
	uint8_t *bytes = build(c, &len, e, vals);
	/* the encoder's output must be well-formed per the independent decoder as well */
	ic_file f; if (ic_decode(bytes, len, &f)) { printf("@error \"encode: own decoder rejects own file: %s\"\n", f.err); free(bytes); vh_case_end(); return; }
	bool bad = false; { size_t q = 0; for (size_t b = 0; b < f.nblocks; b++) for (size_t i = 0; i < f.blocks[b].n; i++, q++) if (q >= (size_t) c->n || f.blocks[b].e[i].klen != e[q].kl || memcmp(f.blocks[b].e[i].key, e[q].k, e[q].kl)) bad = true; if (q != (size_t) c->n) bad = true; }
	if (bad) printf("@error \"encode: own decoder disagrees with the encoded content\"\n");
	ic_free(&f);
	int fd = tbl_fd_from_bytes(bytes, len);
	for (int verify = 0; verify < 2; verify++) {
		struct mtbl_reader_options *ro = mtbl_reader_options_init(); mtbl_reader_options_set_verify_checksums(ro, verify);
		struct mtbl_reader *r = mtbl_reader_init_fd(fd, ro); mtbl_reader_options_destroy(&ro);
		if (!r) { vh_violation("not-opened", "reader refuses a well-formed file (verify_checksums=%d)", verify); continue; }
		const struct mtbl_source *s = mtbl_reader_source(r);
		struct mtbl_iter *it = mtbl_source_iter(s);
		const char *w = tbl_drain_cmp(it, e, c->n); if (w) vh_violation("iteration", "%s", w);
		/* seek backwards after exhaustion, then forward again: for every target */
		for (size_t q = 0; q < nU && !w; q++) {
			mtbl_iter_seek(it, U[q].b, U[q].n);
			int lb = 0; while (lb < c->n && vh_bscmp(e[lb].k, e[lb].kl, U[q].b, U[q].n) < 0) lb++;
			const uint8_t *k, *v; size_t kl, vl; mtbl_res rr = mtbl_iter_next(it, &k, &kl, &v, &vl);
			if (lb == c->n ? rr == mtbl_res_success : (rr != mtbl_res_success || kl != e[lb].kl || memcmp(k, e[lb].k, kl) || vl != e[lb].vl || memcmp(v, e[lb].v, vl))) { vh_violation("seek", "seek(%s) then next does not give the first entry >= target", vh_hex(U[q].b, U[q].n)); break; }
			if (lb < c->n) { rr = mtbl_iter_next(it, &k, &kl, &v, &vl); if (lb + 1 == c->n ? rr == mtbl_res_success : (rr != mtbl_res_success || kl != e[lb + 1].kl || memcmp(k, e[lb + 1].k, kl))) { vh_violation("seek", "after seek(%s) the second next is wrong", vh_hex(U[q].b, U[q].n)); break; } }
			n_lookups += 2;
		}
		mtbl_iter_destroy(&it);
		if (verify == 0) for (size_t q = 0; q < nU; q++) {
			tkv want[MAXN]; size_t nw = 0; char what[80];
			for (int i = 0; i < c->n; i++) if (vh_bscmp(e[i].k, e[i].kl, U[q].b, U[q].n) == 0) want[nw++] = e[i];
			w = tbl_drain_cmp(it = mtbl_source_get(s, U[q].b, U[q].n), want, nw); mtbl_iter_destroy(&it);
			if (w) { vh_violation("get", "get(%s): %s", vh_hex(U[q].b, U[q].n), w); break; }
			nw = 0; for (int i = 0; i < c->n; i++) if (vh_has_prefix(e[i].k, e[i].kl, U[q].b, U[q].n)) want[nw++] = e[i];
			w = tbl_drain_cmp(it = mtbl_source_get_prefix(s, U[q].b, U[q].n), want, nw); mtbl_iter_destroy(&it);
			if (w) { vh_violation("get_prefix", "get_prefix(%s): %s", vh_hex(U[q].b, U[q].n), w); break; }
			size_t q2 = (q * 7 + 3) % nU;
			nw = 0; for (int i = 0; i < c->n; i++) if (vh_bscmp(e[i].k, e[i].kl, U[q].b, U[q].n) >= 0 && vh_bscmp(e[i].k, e[i].kl, U[q2].b, U[q2].n) <= 0) want[nw++] = e[i];
			w = tbl_drain_cmp(it = mtbl_source_get_range(s, U[q].b, U[q].n, U[q2].b, U[q2].n), want, nw); mtbl_iter_destroy(&it);
			if (w) { snprintf(what, sizeof what, "%s", vh_hex(U[q2].b, U[q2].n)); vh_violation("get_range", "get_range(%s,%s): %s", vh_hex(U[q].b, U[q].n), what, w); break; }
			n_lookups += 3;
		}
		/* metadata as encoded */
		const struct mtbl_metadata *m = mtbl_reader_metadata(r);
		if (mtbl_metadata_count_entries(m) != (uint64_t) c->n || mtbl_metadata_file_version(m) != (c->version == 1 ? MTBL_FORMAT_V1 : MTBL_FORMAT_V2) || mtbl_metadata_compression_algorithm(m) != (uint64_t) c->comp) vh_violation("metadata", "metadata accessors do not return the encoded trailer fields");
		mtbl_reader_destroy(&r);
	}
	close(fd); free(bytes);
	n_files++; VH_COUNT("cases", 1); VH_COUNT("states", 1);
	vh_sig(vh_mix(vh_mix(vh_mix(c->version, c->comp), __builtin_popcount(c->cutmask)), __builtin_popcount(c->restartmask & 0xff) * 4 + (c->prefix != 0)));
	vh_case_end();
}

/* ---- 64-bit restart arrays ---- */
static void restart64(void) {
	/* entries: two giant values (2^31+7 and 2^31+9 bytes, never touched) then four small entries beyond the 4 GiB mark; a restart at every entry */
	for (int layout = 0; layout < 3; layout++) {
		ecase c = { 0 }; c.version = 64; c.comp = layout;
		vh_case_begin(render, &c);
		size_t cap = (size_t) 5 << 30;
		uint8_t *img = mmap(NULL, cap, PROT_READ | PROT_WRITE, MAP_PRIVATE | MAP_ANONYMOUS | MAP_NORESERVE, -1, 0);
		if (img == MAP_FAILED) { printf("@error \"restart64: cannot reserve 5 GiB of address space\"\n"); vh_case_end(); return; }
		static const char *keys[] = { "a", "b", "c", "ca", "cb", "d" }; uint64_t vlen[6] = { (1ull << 31) + 7, (1ull << 31) + 9, 3, 0, 5, 1 };
		uint64_t roff[6]; int nr = 0; size_t p = 0; uint8_t tmp[10];
		for (int i = 0; i < 6; i++) {
			bool restart = layout == 0 ? true : layout == 1 ? (i % 2 == 0) : (i == 0 || i == 2 || i == 5);
			size_t kl = strlen(keys[i]), sh = 0;
			if (!restart) sh = lcp((const uint8_t *) keys[i - 1], strlen(keys[i - 1]), (const uint8_t *) keys[i], kl);
			if (restart) roff[nr++] = p;
			p += ic_putvar(img + p, sh); p += ic_putvar(img + p, kl - sh); size_t n = ic_putvar(tmp, vlen[i]); memcpy(img + p, tmp, n); p += n;
			memcpy(img + p, keys[i] + sh, kl - sh); p += kl - sh;
			if (vlen[i] < 100) memset(img + p, 'v', vlen[i]);
			p += vlen[i];
		}
		for (int i = 0; i < nr; i++) { ic_put64(img + p, roff[i]); p += 8; }
		ic_put32(img + p, nr); p += 4;
		struct block *b = block_init(img, p, false);
		struct block_iter *bi = block_iter_init(b);
		block_iter_seek_to_first(bi);
		const uint8_t *k, *v; size_t kl, vl; int i = 0; bool ok = true;
		do {
			if (!block_iter_get(bi, &k, &kl, &v, &vl)) break;
			if (i >= 6 || kl != strlen(keys[i]) || memcmp(k, keys[i], kl) || vl != vlen[i]) { vh_violation("restart64", "entry #%d of a block with 64-bit restart offsets reads back as key %s, value length %zu", i, vh_hex(k, kl), vl); ok = false; break; }
			i++;
		} while (block_iter_next(bi));
		if (ok && i != 6) vh_violation("restart64", "iteration of a >4 GiB block returned %d of 6 entries", i);
		static const char *tg[] = { "", "a", "aa", "b", "bz", "c", "c\x01", "ca", "caa", "cb", "cc", "d", "e" };
		for (unsigned t = 0; t < sizeof tg / sizeof *tg && ok; t++) for (int from = 0; from < 3; from++) {
			if (from == 1) block_iter_seek_to_first(bi); else if (from == 2) block_iter_seek_to_last(bi);
			block_iter_seek(bi, (const uint8_t *) tg[t], strlen(tg[t]));
			int lb = 0; while (lb < 6 && strcmp(keys[lb], tg[t]) < 0) lb++;
			bool got = block_iter_get(bi, &k, &kl, &v, &vl);
			if (lb == 6 ? got : (!got || kl != strlen(keys[lb]) || memcmp(k, keys[lb], kl) || vl != vlen[lb])) { vh_violation("restart64", "seek(%s) in a >4 GiB block (from state %d) lands on %s", tg[t], from, got ? vh_hex(k, kl) : "end"); ok = false; break; }
			VH_COUNT("transitions", 1);
		}
		block_iter_destroy(&bi); block_destroy(&b);
		munmap(img, cap);
		VH_COUNT("cases", 1); VH_COUNT("states", 1); VH_COUNT("restart64_blocks", 1);
		vh_sig(vh_mix(64, layout));
		vh_case_end();
	}
}

/* ---- writer side of the 64-bit restart arrays: block_builder round trip above 4 GiB (thorough tier; needs ~7 GiB of memory) ---- */
static void bb64(void) {
	for (size_t interval = 1; interval <= 2; interval++) {
		ecase c = { 0 }; c.version = 65; c.comp = (int) interval;
		vh_case_begin(render, &c);
		size_t big = (size_t) 3 << 29;                              /* 1.5 GiB */
		uint8_t *zeros = mmap(NULL, big, PROT_READ, MAP_PRIVATE | MAP_ANONYMOUS | MAP_NORESERVE, -1, 0);
		if (zeros == MAP_FAILED) { printf("@error \"bb64: cannot map the source value\"\n"); vh_case_end(); return; }
		static const char *keys[] = { "a", "b", "c", "d", "da", "db", "e" }; size_t vlen[7] = { big, big, big, big, 3, 0, 5 };
		struct block_builder *bb = block_builder_init(interval);
		for (int i = 0; i < 7; i++) block_builder_add(bb, (const uint8_t *) keys[i], strlen(keys[i]), zeros, vlen[i]);
		uint8_t *buf; size_t size;
		size_t est = block_builder_current_size_estimate(bb);
		block_builder_finish(bb, &buf, &size);
		if (size != est) vh_violation("bb64", "block of %zu bytes but the size estimate said %zu", size, est);
		/* independent look at the tail: 64-bit restart array expected */
		uint32_t nr = ic_le32(buf + size - 4); size_t nexp = interval == 1 ? 7 : 4;
		if (nr != nexp) vh_violation("bb64", "restart count %u, expected %zu", nr, nexp);
		else { uint64_t last = ic_le64(buf + size - 4 - 8); if (last <= 0xffffffffULL) vh_violation("bb64", "last restart offset %llu is not beyond 4 GiB: 32-bit array written for a >4 GiB block?", (unsigned long long) last); }
		struct block *b = block_init(buf, size, false);
		struct block_iter *bi = block_iter_init(b);
		block_iter_seek_to_first(bi);
		const uint8_t *k, *v; size_t kl, vl; int i = 0; bool ok = true;
		do {
			if (!block_iter_get(bi, &k, &kl, &v, &vl)) break;
			if (i >= 7 || kl != strlen(keys[i]) || memcmp(k, keys[i], kl) || vl != vlen[i]) { vh_violation("bb64", "entry #%d of the built >4 GiB block reads back as key %s, value length %zu", i, vh_hex(k, kl), vl); ok = false; break; }
			i++;
		} while (block_iter_next(bi));
		if (ok && i != 7) vh_violation("bb64", "iteration returned %d of 7 entries", i);
		static const char *tg[] = { "", "a", "b", "cz", "d", "da", "daa", "db", "e", "f" };
		for (unsigned t = 0; t < sizeof tg / sizeof *tg && ok; t++) {
			block_iter_seek(bi, (const uint8_t *) tg[t], strlen(tg[t]));
			int lb = 0; while (lb < 7 && strcmp(keys[lb], tg[t]) < 0) lb++;
			bool got = block_iter_get(bi, &k, &kl, &v, &vl);
			if (lb == 7 ? got : (!got || kl != strlen(keys[lb]) || memcmp(k, keys[lb], kl))) { vh_violation("bb64", "seek(%s) in the built >4 GiB block lands on %s", tg[t], got ? vh_hex(k, kl) : "end"); ok = false; }
			VH_COUNT("transitions", 1);
		}
		block_iter_destroy(&bi); block_destroy(&b); free(buf); block_builder_destroy(&bb); munmap(zeros, big);
		VH_COUNT("cases", 1); VH_COUNT("states", 1); VH_COUNT("builder64_blocks", 1);
		vh_sig(vh_mix(65, interval));
		vh_case_end();
	}
}

/* ---- a zlib block whose stored stream is >= 1 GiB: the reader's first guess for the inflate buffer (4 x stored size) then reaches
 * 2^32, beyond zlib's 32-bit avail_out (finding F13).  One entry "k" -> `vlen` incompressible bytes, stream made of stored deflate
 * blocks by zlib itself (level 0), both format versions; thorough tier only (about 6 GiB of memory, half a minute). ---- */
static uint8_t zb_byte(uint64_t *st) { *st ^= *st << 13; *st ^= *st >> 7; *st ^= *st << 17; return (uint8_t) (*st >> 24); }
static void zbig_one(int version, size_t vlen) {
	ecase c = { 0 }; c.version = 66; c.comp = version; c.prefix = vlen;
	vh_case_begin(render, &c);
	if (!vh_batch_fork()) { vh_case_end(); return; }
	vh_watchdog_s = 900;
	uint8_t hdr[32]; size_t hl = 0; hl += ic_putvar(hdr + hl, 0); hl += ic_putvar(hdr + hl, 1); hl += ic_putvar(hdr + hl, vlen); hdr[hl++] = 'k';
	size_t rawlen = hl + vlen + 8;
	uint8_t *raw = malloc(rawlen); if (!raw) { printf("@note \"zlib block of %zu bytes skipped: this machine cannot allocate it\"\n", rawlen); VH_COUNT("zlib_big_skipped_no_memory", 1); vh_case_end(); vh_batch_exit(); }
	memcpy(raw, hdr, hl); uint64_t st = 88172645463325252ull; for (size_t i = 0; i < vlen; i++) raw[hl + i] = zb_byte(&st);
	ic_put32(raw + hl + vlen, 0); ic_put32(raw + hl + vlen + 4, 1);
	vh_case_seq++;
	uLongf cl = compressBound(rawlen); uint8_t *cz = malloc(cl); if (!cz) { printf("@note \"zlib block of %zu bytes skipped: this machine cannot allocate the stream buffer\"\n", rawlen); VH_COUNT("zlib_big_skipped_no_memory", 1); vh_case_end(); vh_batch_exit(); }
	if (compress2(cz, &cl, raw, rawlen, 0) != Z_OK) { printf("@error \"zbig: zlib refuses to build the stream\"\n"); vh_batch_exit(); }
	free(raw);
	vh_case_seq++;
	int fd = tbl_memfd(); uint8_t tmp[16]; size_t n; uint64_t off = 0;
	#define ZB_PUT(p_, n_) do { const uint8_t *q_ = (const uint8_t *) (p_); size_t left_ = (n_); while (left_) { ssize_t w_ = write(fd, q_, left_ > (1u << 30) ? (1u << 30) : left_); if (w_ <= 0) { perror("write"); abort(); } q_ += w_; left_ -= w_; off += w_; } } while (0)
	if (version == 1) { ic_put32(tmp, (uint32_t) cl); n = 4; } else n = ic_putvar(tmp, cl);
	ZB_PUT(tmp, n); ic_put32(tmp, ic_crc32c(cz, cl)); ZB_PUT(tmp, 4); ZB_PUT(cz, cl);
	free(cz);
	uint64_t bytes_data = off, ioff = off;
	uint8_t offv[10]; ic_enc_ent ie = { (const uint8_t *) "k", 1, offv, ic_putvar(offv, 0), true, 0 };
	ic_buf ib = { 0 }; ic_enc_block(&ib, &ie, 1); ic_buf f = { 0 }; ic_enc_store(&f, ib.p, ib.n, IC_NONE, version);
	uint64_t fields[9] = { ioff, 8192, IC_ZLIB, 1, 1, bytes_data, f.n, 1, vlen };
	ic_enc_trailer(&f, version, fields); ZB_PUT(f.p, f.n); free(f.p); free(ib.p);
	vh_case_seq++;
	struct mtbl_reader *r = mtbl_reader_init_fd(fd, NULL);
	if (!r) vh_violation("zlib-big", "reader refuses a well-formed v%d file with one %zu-byte value in a zlib block", version, vlen);
	else {
		const struct mtbl_source *src = mtbl_reader_source(r);
		for (int how = 0; how < 2; how++) {
			struct mtbl_iter *it = how ? mtbl_source_get(src, (const uint8_t *) "k", 1) : mtbl_source_iter(src);
			const uint8_t *k, *v; size_t kl, vl;
			if (mtbl_iter_next(it, &k, &kl, &v, &vl) != mtbl_res_success) vh_violation("zlib-big", "%s returns nothing from a well-formed file with one %zu-byte value in a zlib block", how ? "get" : "iteration", vlen);
			else {
				bool ok = kl == 1 && k[0] == 'k' && vl == vlen; uint64_t s2 = 88172645463325252ull;
				for (size_t i = 0; ok && i < vlen; i++) if (v[i] != zb_byte(&s2)) ok = false;
				if (!ok) vh_violation("zlib-big", "%s returns key length %zu, value length %zu (expected 1, %zu) or wrong bytes", how ? "get" : "iteration", kl, vl, vlen);
				if (mtbl_iter_next(it, &k, &kl, &v, &vl) == mtbl_res_success) vh_violation("zlib-big", "a second entry appears");
			}
			mtbl_iter_destroy(&it); vh_case_seq++; VH_COUNT("transitions", 1);
		}
		mtbl_reader_destroy(&r);
	}
	close(fd);
	VH_COUNT("cases", 1); VH_COUNT("states", 1); VH_COUNT("zlib_big_files", 1);
	vh_sig(vh_mix(66, version * 4 + (vlen >> 29)));
	vh_case_end();
	vh_batch_exit();
}
static void zbig(void) { zbig_one(2, (size_t) 1 << 30); zbig_one(1, ((size_t) 1 << 30) - 300000); zbig_one(2, (size_t) 100 << 20); }

int main(int argc, char **argv) {
	vh_init(argc, argv);
	nU = u5_gen(U, 2);
	for (int i = 0; i < 6; i++) for (size_t l = 1; l <= K2[i].n && l <= 4; l++) { bool dup = false; for (size_t q = 0; q < nU; q++) if (U[q].n == l && !memcmp(U[q].b, K2[i].b, l)) dup = true; if (!dup && nU < 78) { memcpy(U[nU].b, K2[i].b, l); U[nU].n = l; nU++; } }
	ecase c;
	if (vh_case_arg) {
		memset(&c, 0, sizeof c); int off = 0; const char *s = vh_case_arg;
		if (sscanf(s, "E:%d:%d:%zu:%u:%u:%n", &c.version, &c.comp, &c.prefix, &c.cutmask, &c.restartmask, &off) < 5) return 2;
		if (c.version == 64) { restart64(); return vh_finish(); }
		if (c.version == 65) { bb64(); return vh_finish(); }
		if (c.version == 66) { zbig_one(c.comp, c.prefix); return vh_finish(); }
		s += off; while (*s && c.n < MAXN) { int o2; if (sscanf(s, "%d.%d.%d,%n", &c.key[c.n], &c.share[c.n], &c.sep[c.n], &o2) < 3) break; c.n++; s += o2; }
		check(&c); vh_count("transitions", n_lookups); return vh_finish();
	}
	const char *mode = vh_arg(0, "enc");
	if (!strcmp(mode, "restart64")) { if (vh_shard == 0) restart64(); return vh_finish(); }
	if (!strcmp(mode, "bb64")) { if (vh_shard == 0) bb64(); return vh_finish(); }
	if (!strcmp(mode, "zbig")) { if (vh_shard == 0) zbig(); return vh_finish(); }
	uint64_t idx = 0;
	int maxn = vh_thorough ? 5 : 4;
	static const int comps[6] = { 0, 1, 2, 3, 4, 5 };
	for (unsigned mask = 1; mask < 512; mask++) {
		int n = __builtin_popcount(mask); if (n > maxn) continue;
		if (!vh_mine(idx++)) continue;
		if (vh_time_up() || vh_too_many()) break;
		memset(&c, 0, sizeof c); c.n = 0; for (int i = 0; i < 9; i++) if (mask >> i & 1) c.key[c.n++] = i;
		/* (1) full product of partition x restart set x sharing, v2, no compression */
		for (unsigned cut = 0; cut < (1u << (n - 1)); cut++) for (unsigned rs = 0; rs < (1u << n); rs += 2) {
			if (n == maxn && maxn >= 4 && (rs & cut << 1) != 0 && (mask % 3)) continue;      /* thin out redundant (restart at block start) combinations for the largest n */
			int nsh = 1; for (int i = 1; i < n; i++) nsh *= 3;
			for (int sc = 0; sc < nsh; sc++) {
				int x = sc; bool skip = false;
				for (int i = 1; i < n; i++) { c.share[i] = x % 3; x /= 3; bool fresh = (rs >> i & 1) || (cut >> (i - 1) & 1); if (fresh && c.share[i] != 2) skip = true; }     /* sharing choice only matters for non-restart entries */
				if (skip) continue;
				c.cutmask = cut; c.restartmask = rs | (sc % 2 ? 0x300 : 0); c.version = 2; c.comp = 0; c.prefix = 0; for (int i = 0; i < n; i++) c.sep[i] = 0;
				check(&c);
			}
		}
		for (int i = 0; i < n; i++) c.share[i] = 2;
		/* (2) separators: every choice per block, for every partition */
		for (unsigned cut = 0; cut < (1u << (n - 1)); cut++) {
			int nb = __builtin_popcount(cut) + 1; int nsep = 1; for (int i = 0; i < nb; i++) nsep *= 4;
			for (int sc = 0; sc < nsep; sc++) { int x = sc; for (int i = 0; i < nb; i++) { c.sep[i] = x % 4; x /= 4; } c.cutmask = cut; c.restartmask = 0; c.version = 2; c.comp = 0; c.prefix = sc & 1 ? 13 : 0; check(&c); }
		}
		/* (3) version x compression x prefix, for every partition, two restart layouts */
		for (unsigned cut = 0; cut < (1u << (n - 1)); cut++) for (int ver = 1; ver <= 2; ver++) for (int ci = 0; ci < 6; ci++) for (int pf = 0; pf < 2; pf++) for (int rl = 0; rl < 2; rl++) {
			for (int i = 0; i < n; i++) c.sep[i] = (ci + i) % 4;
			c.cutmask = cut; c.restartmask = rl ? 0xff : 0; c.version = ver; c.comp = comps[ci]; c.prefix = pf ? 13 : 0; check(&c);
		}
	}
	/* (4) long-prefix pool: every subset, every partition, every restart set, four sharing amounts per non-restart entry {0, 1, lcp-1, lcp} */
	for (unsigned mask = 1; mask < 64; mask++) {
		int n = __builtin_popcount(mask); if (n > maxn || n < 2) continue;
		if (!vh_mine(idx++)) continue;
		if (vh_time_up() || vh_too_many()) break;
		memset(&c, 0, sizeof c); c.n = 0; for (int i = 0; i < 6; i++) if (mask >> i & 1) c.key[c.n++] = 100 + i;
		for (unsigned cut = 0; cut < (1u << (n - 1)); cut++) for (unsigned rs = 0; rs < (1u << n); rs += 2) {
			int nsh = 1; for (int i = 1; i < n; i++) nsh *= 4;
			for (int sc = 0; sc < nsh; sc++) {
				int x = sc; bool skip = false;
				for (int i = 1; i < n; i++) { c.share[i] = x % 4; x /= 4; bool fresh = (rs >> i & 1) || (cut >> (i - 1) & 1); if (fresh && c.share[i] != 2) skip = true; }
				if (skip) continue;
				for (int ver = 1; ver <= 2; ver++) { c.cutmask = cut; c.restartmask = rs; c.version = ver; c.comp = (sc + ver) % 6; c.prefix = 0; for (int i = 0; i < n; i++) c.sep[i] = (sc + i) % 4; check(&c); VH_COUNT("partial_sharing_files", 1); }
			}
		}
	}
	vh_count("transitions", n_lookups);
	if (vh_shard == 0) vh_sample("E:1:5:13:2:0:0.2.0,2.2.2,6.2.0, = v1 file, zstd, 13 foreign bytes, keys {e,0000,8000}, cut after the 2nd entry, separators: last key / just below the next key");
	return vh_finish();
}
