/* C12: intact files verify; any 1-3 flipped bits or any burst of up to 32 bits inside a block's stored bytes or checksum field
 * is never accepted: mtbl_verify's verify_file() never says OK, a verify_checksums reader never returns an entry of that block.
 * reader.c is compiled with -Dmmap=vf_mmap -Dmunmap=vf_munmap only so that a mapping abandoned by an aborted open can be released. */
#include "tbl.h"
#include <sys/syscall.h>

/* ---- mtbl_verify's verify_file(), compiled in with its output captured ---- */
static int g_said_ok, g_said_failed;
static int cap_printf(const char *fmt, ...) { if (strstr(fmt, ": OK")) g_said_ok++; if (strstr(fmt, ": FAILED")) g_said_failed++; return 0; }
#define main verify_main
#define printf cap_printf
#define fprintf(...) ((void) 0)
#define fputs(a, b) ((void) 0)
#include "mtbl_verify.c"
#undef main
#undef printf
#undef fprintf
#undef fputs
/* the tool is entered through its main() (the only name in that file that is not private to it) */
static bool run_verify_main(const char *path) { char *av[] = { (char *) "mtbl_verify", (char *) path, NULL }; optind = 0; return verify_main(2, av) == 0; }
/* the same with an undamaged file named first on the command line: state that the tool keeps from one file to the next must not weaken the check of the second */
static bool run_verify_main2(const char *intact, const char *path) { char *av[] = { (char *) "mtbl_verify", (char *) intact, (char *) path, NULL }; optind = 0; return verify_main(3, av) == 0; }

/* ---- mapping seam: plain mmap, remembered so that it can be dropped after an abort ---- */
static void *map_addr; static size_t map_len;
void *vf_mmap(void *a, size_t len, int prot, int flags, int fd, off_t off);
int vf_munmap(void *a, size_t len);
void *vf_mmap(void *a, size_t len, int prot, int flags, int fd, off_t off) { void *p = mmap(a, len, prot, flags, fd, off); if (p != MAP_FAILED) { map_addr = p; map_len = len; } return p; }
int vf_munmap(void *a, size_t len) { if (a == map_addr) map_addr = NULL; return munmap(a, len); }
static void drop_map(void) { if (map_addr) { munmap(map_addr, map_len); map_addr = NULL; } }

/* ---- the real mtbl_verify binary (exit status and stdout), used on a deterministic subset ---- */
static int verify_tool(const char *path, int *said_ok) {
	const char *exe = getenv("VERIF_TOOL_MTBL_VERIFY"); *said_ok = 0;
	if (!exe) return -2;
	int pfd[2]; if (pipe(pfd)) { fprintf(stderr, "cksum: abort at line %d errno=%d\n", __LINE__, errno); abort(); }
	fflush(stdout);
	pid_t pid = fork();
	if (pid == 0) { dup2(pfd[1], 1); close(pfd[0]); close(pfd[1]); int dn = open("/dev/null", O_WRONLY); dup2(dn, 2); char *argv[] = { "mtbl_verify", (char *) path, NULL }; execv(exe, argv); _exit(127); }
	close(pfd[1]);
	char buf[4096]; size_t n = 0; for (;;) { ssize_t r = read(pfd[0], buf + n, sizeof buf - 1 - n); if (r <= 0) break; n += r; if (n >= sizeof buf - 1) break; } buf[n] = 0; close(pfd[0]);
	int st = 0; waitpid(pid, &st, 0);
	if (strstr(buf, ": OK")) *said_ok = 1;
	return WIFEXITED(st) ? WEXITSTATUS(st) : 128 + WTERMSIG(st);
}

/* ---- seeds ---- */
typedef struct {
	uint8_t *bytes; size_t len; int fd; char path[64]; int fd0; char path0[64];     /* fd0: a second, never damaged copy */
	ic_file f;
	size_t nregions;                    /* data blocks + index block */
	size_t first_idx[12];                /* index of the first entry of each data block in the full sequence */
	size_t total;
	tkv all[64];
} seed;
static seed SD;
static size_t region_off(const seed *s, size_t b) { const ic_block *k = b < s->f.nblocks ? &s->f.blocks[b] : &s->f.index; return k->file_off + k->hdr_len; }
static size_t region_len(const seed *s, size_t b) { const ic_block *k = b < s->f.nblocks ? &s->f.blocks[b] : &s->f.index; return 4 + k->stored_len; }

static void seed_finish(seed *s) {
	s->fd = tbl_fd_from_bytes(s->bytes, s->len);
	snprintf(s->path, sizeof s->path, "/proc/self/fd/%d", s->fd);
	s->fd0 = tbl_fd_from_bytes(s->bytes, s->len); snprintf(s->path0, sizeof s->path0, "/proc/self/fd/%d", s->fd0);
	if (ic_decode(s->bytes, s->len, &s->f)) { printf("@error \"cksum: seed does not decode: %s\"\n", s->f.err); exit(2); }
	s->nregions = s->f.nblocks + 1; s->total = 0;
	for (size_t b = 0; b < s->f.nblocks; b++) { s->first_idx[b] = s->total; for (size_t i = 0; i < s->f.blocks[b].n; i++) { const ic_ent *e = &s->f.blocks[b].e[i]; s->all[s->total++] = (tkv) { e->key, e->klen, e->val, e->vlen }; } }
}
/* kind 0: writer, one tiny block; 1: writer, 3 blocks of ~610 bytes (lz4: smaller stored); 2: writer 3 blocks uncompressed;
 * 3: independent encoder, 3 tiny blocks v2; 4: independent encoder, 3 tiny blocks v1; 5: independent encoder zlib tiny blocks */
static void seed_make(seed *s, int kind) {
	memset(s, 0, sizeof *s);
	if (kind <= 2 || kind >= 10) {
		tkv e[3]; uint8_t k[3][2]; int n = (kind == 0 || kind >= 10) ? 1 : 3;
		for (int i = 0; i < n; i++) { k[i][0] = 'k'; k[i][1] = '0' + i; e[i].k = k[i]; e[i].kl = 2; e[i].vl = kind == 0 ? 1 : kind >= 10 ? (size_t) (kind - 10) : 600; e[i].v = tbl_val(i + 1, e[i].vl); }
		tcfg cfg = { 0 }; cfg.block_size = 1024; cfg.comp = kind == 1 ? 3 : 0; cfg.prefix = kind == 2 ? 13 : 0;
		int fd = tbl_write(&cfg, e, n, NULL); s->bytes = tbl_slurp(fd, &s->len); close(fd);
	} else if (kind == 6) {
		/* eight one-entry blocks whose stored lengths cover every residue modulo 8 (word-at-a-time CRC tails) */
		ic_buf f = { 0 }, idx = { 0 }; ic_enc_ent ie[8]; uint8_t offv[8][10]; static uint8_t k[8][2]; static uint8_t v[8][8]; uint64_t bytes_data = 0, nv = 0;
		for (int i = 0; i < 8; i++) {
			k[i][0] = 'a' + i; memset(v[i], '0' + i, i);
			ic_enc_ent e1 = { k[i], 1, v[i], (size_t) i, true, 0 }; ic_buf blk = { 0 }; ic_enc_block(&blk, &e1, 1);
			uint64_t off = f.n; ic_enc_store(&f, blk.p, blk.n, IC_NONE, 2); bytes_data += f.n - off; free(blk.p); nv += i;
			ie[i] = (ic_enc_ent) { k[i], 1, offv[i], ic_putvar(offv[i], off), true, 0 };
		}
		ic_enc_block(&idx, ie, 8);
		uint64_t ioff = f.n; ic_enc_store(&f, idx.p, idx.n, IC_NONE, 2);
		uint64_t fields[9] = { ioff, 1024, 0, 8, 8, bytes_data, f.n - ioff, 8, nv };
		ic_enc_trailer(&f, 2, fields);
		s->bytes = f.p; s->len = f.n; free(idx.p);
	} else {
		int version = kind == 4 ? 1 : 2, comp = kind == 5 ? IC_ZLIB : IC_NONE;
		ic_buf f = { 0 }, idx = { 0 }; ic_enc_ent ie[3]; uint8_t offv[3][10]; static uint8_t k[3][3]; static uint8_t v[3][8]; uint64_t bytes_data = 0, nk = 0, nv = 0;
		for (int i = 0; i < 3; i++) {
			k[i][0] = 'a' + i; k[i][1] = 'x'; size_t vl = 1 + 2 * i; memset(v[i], '0' + i, vl);
			ic_enc_ent e2[2] = { { k[i], 1, v[i], vl, true, 0 }, { k[i], 2, v[i], vl, false, 1 } }; ic_buf blk = { 0 }; ic_enc_block(&blk, e2, i == 1 ? 2 : 1);
			uint64_t off = f.n; ic_enc_store(&f, blk.p, blk.n, comp, version); bytes_data += f.n - off; free(blk.p);
			nk += i == 1 ? 3 : 1; nv += (i == 1 ? 2 : 1) * vl;
			ie[i] = (ic_enc_ent) { k[i], i == 1 ? 2 : 1, offv[i], ic_putvar(offv[i], off), true, 0 };
		}
		ic_enc_block(&idx, ie, 3);
		uint64_t ioff = f.n; ic_enc_store(&f, idx.p, idx.n, IC_NONE, version);
		uint64_t fields[9] = { ioff, 1024, (uint64_t) comp, 4, 3, bytes_data, f.n - ioff, nk, nv };
		ic_enc_trailer(&f, version, fields);
		s->bytes = f.p; s->len = f.n; free(idx.p);
	}
	seed_finish(s);
}
static void seed_free(seed *s) { ic_free(&s->f); free(s->bytes); close(s->fd); close(s->fd0); }

/* ---- one damaged file ---- */
typedef struct { int kind; size_t region; int nbits; uint32_t bit[4]; uint32_t burst_start; uint32_t burst_pat; int is_burst; } fcase;
static void render(char *b, size_t n, void *ctx) {
	fcase *c = ctx;
	if (c->is_burst) snprintf(b, n, "K:%d:%zu:burst:%u:%x", c->kind, c->region, c->burst_start, c->burst_pat);
	else { int o = snprintf(b, n, "K:%d:%zu:bits", c->kind, c->region); for (int i = 0; i < c->nbits; i++) o += snprintf(b + o, n - o, ":%u", c->bit[i]); }
}
static struct mtbl_reader *g_reader;     /* persistent verify_checksums reader on the seed (index block intact at open time) */

static uint64_t n_verify_failed, n_reader_stopped;
static void check_damaged(fcase *c) {
	vh_case_begin(render, c);
	seed *s = &SD;
	size_t roff = region_off(s, c->region), rlen = region_len(s, c->region);
	/* apply the flips to the file */
	uint8_t patch[16]; size_t pstart, plen;
	uint32_t lo = ~0u, hi = 0;
	if (c->is_burst) { lo = c->burst_start; hi = c->burst_start + 31; if (hi >= rlen * 8) hi = (uint32_t) (rlen * 8 - 1); }
	else for (int i = 0; i < c->nbits; i++) { if (c->bit[i] < lo) lo = c->bit[i]; if (c->bit[i] > hi) hi = c->bit[i]; }
	bool wide = (hi / 8 - lo / 8 + 1) > sizeof patch;
	uint8_t *copy = NULL;
	if (wide) { copy = malloc(rlen); memcpy(copy, s->bytes + roff, rlen); for (int i = 0; i < c->nbits; i++) copy[c->bit[i] / 8] ^= 1u << (c->bit[i] % 8); if (pwrite(s->fd, copy, rlen, roff) != (ssize_t) rlen) { fprintf(stderr, "cksum: abort at line %d errno=%d\n", __LINE__, errno); abort(); } pstart = 0; plen = rlen; }
	else {
		pstart = lo / 8; plen = hi / 8 - lo / 8 + 1; memcpy(patch, s->bytes + roff + pstart, plen);
		if (c->is_burst) { for (int j = 0; j < 32; j++) if (c->burst_pat >> j & 1) { uint32_t bit = c->burst_start + j; if (bit < rlen * 8) patch[bit / 8 - pstart] ^= 1u << (bit % 8); } }
		else for (int i = 0; i < c->nbits; i++) patch[c->bit[i] / 8 - pstart] ^= 1u << (c->bit[i] % 8);
		if (pwrite(s->fd, patch, plen, roff + pstart) != (ssize_t) plen) { fprintf(stderr, "cksum: abort at line %d errno=%d\n", __LINE__, errno); abort(); }
	}
	sigjmp_buf jb;
	/* (1) mtbl_verify */
	g_said_ok = g_said_failed = 0;
	int lowfd = dup(0); close(lowfd);
	bool vres = false, vabort = false;
	/* damage to the index block, and every 16th other case: the damaged file is the SECOND file of the run, after an intact one */
	static uint64_t vseq; bool second = c->region >= s->f.nblocks || (vseq++ & 15) == 0; int ok_expected = 0;
	if (VH_TRY_ASSERT(jb)) { if (second) { ok_expected = 1; vres = run_verify_main2(s->path0, s->path); } else vres = run_verify_main(s->path); VH_END_ASSERT(); } else { vabort = true; drop_map(); }
	if (second) { VH_COUNT("verify_as_second_file", 1); if (!vabort && g_said_ok < 1) vh_violation("intact-rejected", "mtbl_verify <intact> <damaged>: the intact first file is not reported OK"); g_said_ok -= g_said_ok >= ok_expected ? ok_expected : g_said_ok; }
	/* verify_file() of the tool never closes the descriptor it opens (harmless in a command line tool, fatal in a loop): close it here,
	 * otherwise later cases could not even open the file and would count as "rejected" for the wrong reason */
	syscall(SYS_close_range, (unsigned) lowfd, ~0U, 0);
	if (!vabort && !g_said_failed && !vres && !g_said_ok) vh_violation("verify-silent", "verify_file neither printed OK nor FAILED (could it open the file?)");
	if (vres || g_said_ok) vh_violation("verify-ok", "mtbl_verify reports the damaged file as OK (returned %d, printed OK %d times)", vres, g_said_ok);
	else n_verify_failed++;
	(void) vabort;
	VH_COUNT("transitions", 1);
	if (!c->is_burst && c->nbits == 1 && c->bit[0] % 16 == 3) {
		char pp[64]; snprintf(pp, sizeof pp, "/proc/%d/fd/%d", (int) getpid(), s->fd); int so; int rc = verify_tool(pp, &so);
		if (rc != -2) { if (rc == 0 || so) vh_violation("verify-tool-ok", "the mtbl_verify binary exits %d and prints OK=%d on the damaged file", rc, so); VH_COUNT("tool_runs", 1); }
	}
	/* (2) verify_checksums reader: nothing from the damaged block may be handed out */
	if (c->region < s->f.nblocks) {
		size_t b = c->region, first = s->first_idx[b], nb = s->f.blocks[b].n;
		const struct mtbl_source *src = mtbl_reader_source(g_reader);
		struct mtbl_iter *it = NULL; size_t got = 0; bool stopped = false, bad = false;
		const uint8_t *k, *v; size_t kl, vl;
		if (VH_TRY_ASSERT(jb)) {
			it = mtbl_source_iter(src);
			while (mtbl_iter_next(it, &k, &kl, &v, &vl) == mtbl_res_success) {
				if (got >= first) { bad = true; break; }
				if (kl != s->all[got].kl || memcmp(k, s->all[got].k, kl) || vl != s->all[got].vl || memcmp(v, s->all[got].v, vl)) { bad = true; break; }
				got++;
			}
			VH_END_ASSERT();
		} else stopped = true;
		if (bad) vh_violation("entry-from-damaged-block", "iteration with verify_checksums handed out entry #%zu (key %s); block %zu starting at entry #%zu is damaged", got, vh_hex(k, kl), b, first);
		else if (!stopped) vh_violation("not-stopped", "iteration with verify_checksums ran to its end (%zu entries) although block %zu is damaged", got, b);
		else n_reader_stopped++;
		if (it) mtbl_iter_destroy(&it);
		VH_COUNT("transitions", 1);
		for (size_t i = 0; i < nb; i++) {
			const tkv *e = &s->all[first + i]; it = NULL; bad = false;
			if (VH_TRY_ASSERT(jb)) {
				it = mtbl_source_get(src, e->k, e->kl);
				if (mtbl_iter_next(it, &k, &kl, &v, &vl) == mtbl_res_success) bad = true;
				VH_END_ASSERT();
			}
			if (bad) vh_violation("entry-from-damaged-block", "get(%s) with verify_checksums returned an entry from damaged block %zu", vh_hex(e->k, e->kl), b);
			if (it) mtbl_iter_destroy(&it);
			VH_COUNT("transitions", 1);
		}
	} else {
		/* damaged index block: opening with verify_checksums must not yield a usable reader */
		struct mtbl_reader_options *ro = mtbl_reader_options_init(); mtbl_reader_options_set_verify_checksums(ro, true);
		struct mtbl_reader *r = NULL;
		if (VH_TRY_ASSERT(jb)) { r = mtbl_reader_init_fd(s->fd, ro); VH_END_ASSERT(); } else drop_map();
		if (r) { vh_violation("index-accepted", "a reader with verify_checksums opened a file whose index block is damaged"); mtbl_reader_destroy(&r); }
		mtbl_reader_options_destroy(&ro);
		VH_COUNT("transitions", 1);
	}
	/* restore */
	if (wide) { if (pwrite(s->fd, s->bytes + roff, rlen, roff) != (ssize_t) rlen) { fprintf(stderr, "cksum: abort at line %d errno=%d\n", __LINE__, errno); abort(); } free(copy); }
	else if (pwrite(s->fd, s->bytes + roff + pstart, plen, roff + pstart) != (ssize_t) plen) { fprintf(stderr, "cksum: abort at line %d errno=%d\n", __LINE__, errno); abort(); }
	VH_COUNT("cases", 1); VH_COUNT("states", 1);
	vh_case_end();
}

/* the undamaged seed itself must be accepted: a well-formed file (from the writer or from the independent encoder) that mtbl_verify
 * or a verify_checksums reader rejects means the library's checksum disagrees with CRC-32C or with itself */
static void seed_must_verify(seed *s, int kind) {
	fcase c; memset(&c, 0, sizeof c); c.kind = kind; c.nbits = 0;
	vh_case_begin(render, &c);
	g_said_ok = 0; sigjmp_buf jb; bool ok = false;
	int lowfd0 = dup(0); close(lowfd0);
	if (VH_TRY_ASSERT(jb)) { ok = run_verify_main(s->path); VH_END_ASSERT(); } else drop_map();
	syscall(SYS_close_range, (unsigned) lowfd0, ~0U, 0);
	if (!ok || g_said_ok != 1) vh_violation("intact-rejected", "mtbl_verify does not report the undamaged seed file %d as OK", kind);
	{ char pp[64]; snprintf(pp, sizeof pp, "/proc/%d/fd/%d", (int) getpid(), s->fd); int so; int rc = verify_tool(pp, &so); if (rc == -2) printf("@error \"cksum: mtbl_verify tool not built\"\n"); else { if (rc != 0 || !so) vh_violation("intact-rejected", "the mtbl_verify binary exits %d / prints OK=%d on the undamaged seed file %d", rc, so, kind); VH_COUNT("tool_runs", 1); } }
	struct mtbl_reader_options *ro = mtbl_reader_options_init(); mtbl_reader_options_set_verify_checksums(ro, true);
	struct mtbl_reader *r = NULL; struct mtbl_iter *it = NULL; const char *w = "aborted";
	if (VH_TRY_ASSERT(jb)) { r = mtbl_reader_init_fd(s->fd, ro); if (r) { it = mtbl_source_iter(mtbl_reader_source(r)); w = tbl_drain_cmp(it, s->all, s->total); } VH_END_ASSERT(); } else drop_map();
	if (!r || w) vh_violation("intact-rejected", "a verify_checksums reader does not read the undamaged seed file %d completely (%s)", kind, r ? w : "not opened");
	if (it) mtbl_iter_destroy(&it); if (r) mtbl_reader_destroy(&r); mtbl_reader_options_destroy(&ro);
	VH_COUNT("intact_seeds_verified", 1);
	vh_case_end();
}
static uint64_t g_idx; static int g_kind;
static uint64_t batch_cases;
#define BATCH 150000
/* run fn-style enumeration in forked batches: the enumeration is re-walked and only the cases of the current batch are executed */
typedef void (*enum_fn)(void (*visit)(fcase *));
static uint64_t visit_no, batch_lo, batch_hi;
static void visit_run(fcase *c) { uint64_t i = visit_no++; if (i < batch_lo || i >= batch_hi) return; if (!vh_mine(i / 64)) return; if (vh_too_many()) return; check_damaged(c); }
static void visit_count(fcase *c) { (void) c; visit_no++; }

static int g_maxtriple_bits;
static void enumerate(void (*visit)(fcase *)) {
	seed *s = &SD;
	for (size_t r = 0; r < s->nregions; r++) {
		uint32_t nbits = (uint32_t) region_len(s, r) * 8;
		fcase c; memset(&c, 0, sizeof c); c.kind = g_kind; c.region = r;
		/* single bits */
		c.nbits = 1; for (uint32_t a = 0; a < nbits; a++) { c.bit[0] = a; visit(&c); }
		/* pairs: all for small regions; for large regions all pairs within 64 bits of each other plus a coarse grid */
		c.nbits = 2;
		for (uint32_t a = 0; a < nbits; a++) for (uint32_t b = a + 1; b < nbits; b++) {
			if (nbits > 1024 && !vh_thorough && b - a > 64 && ((a % 61) || (b % 67))) continue;
			if (nbits > 1024 && vh_thorough && b - a > 256 && ((a % 7) || (b % 11))) continue;
			c.bit[0] = a; c.bit[1] = b; visit(&c);
		}
		/* triples: all, for regions up to g_maxtriple_bits */
		if ((int) nbits <= g_maxtriple_bits) { c.nbits = 3; for (uint32_t a = 0; a < nbits; a++) for (uint32_t b = a + 1; b < nbits; b++) for (uint32_t d = b + 1; d < nbits; d++) { c.bit[0] = a; c.bit[1] = b; c.bit[2] = d; visit(&c); } }
		else { c.nbits = 3; for (uint32_t a = 0; a < nbits; a++) for (uint32_t b = a + 1; b < nbits && b < a + 24; b++) for (uint32_t d = b + 1; d < nbits && d < a + 40; d++) { c.bit[0] = a; c.bit[1] = b; c.bit[2] = d; visit(&c); } }
		/* bursts: first and last flipped bit <= 12 apart: every interior pattern at every position; spans 13..32 with pattern families */
		c.is_burst = 1; c.nbits = 0;
		for (uint32_t st = 0; st < nbits; st++) {
			if (nbits > 1024 && !vh_thorough && st % 40) continue;
			for (int span = 2; span <= 12 && st + span <= nbits; span++) {
				uint32_t interior = span - 2;
				for (uint32_t m = 0; m < (1u << interior); m++) { c.burst_start = st; c.burst_pat = 1u | (m << 1) | (1u << (span - 1)); visit(&c); }
			}
			for (int span = 13; span <= 32 && st + span <= nbits; span++) {
				uint32_t full = span == 32 ? 0xffffffffu : ((1u << span) - 1), ends = 1u | (1u << (span - 1));
				uint32_t alt = 0; for (int j = 0; j < span; j += 2) alt |= 1u << j; alt |= ends;
				c.burst_start = st; c.burst_pat = full; visit(&c); c.burst_pat = ends; visit(&c); c.burst_pat = alt; visit(&c);
				for (int j = 1; j < span - 1; j += 5) { c.burst_pat = ends | (1u << j); visit(&c); }
			}
		}
		c.is_burst = 0;
	}
}

/* ---- part 1: intact files verify ---- */
static void part1(void) {
	static const int comps[6] = { 0, 1, 3, 4, 5, 2 };
	uint64_t idx = 0;
	for (unsigned mask = 0; mask < 512; mask++) {
		if (__builtin_popcount(mask) > 3) continue;
		if (!vh_mine(idx++)) continue;
		if (vh_time_up()) return;
		unsigned nv = 1; for (int i = 0; i < __builtin_popcount(mask); i++) nv *= 3;
		/* foreign prefixes: none, a few bytes, and a page or more (offset arithmetic on page boundaries, seed R7-C12); the large ones on every 8th table */
		static const size_t PFX[6] = { 0, 13, 4096, 4097, 8192 + 13, 65536 };
		for (unsigned vc = 0; vc < nv; vc++) for (int ci = 0; ci < 6; ci++) for (int pf = 0; pf < ((mask + vc) % 8 == 0 ? 6 : 2); pf++) {
			tkv e[3]; size_t n = 0; unsigned v = vc; static const size_t VS[3] = { 0, 1, 600 };
			for (int i = 0; i < 9; i++) if (mask >> i & 1) { e[n].k = TBL_K9[i].b; e[n].kl = TBL_K9[i].n; e[n].vl = VS[v % 3]; e[n].v = tbl_val(i + 1, e[n].vl); v /= 3; n++; }
			tcfg cfg = { 0 }; cfg.comp = comps[ci]; cfg.block_size = 1024; cfg.restart = 2; cfg.prefix = PFX[pf];
			fcase fc = { 0 }; fc.kind = 100 + ci; fc.region = mask; fc.nbits = 1; fc.bit[0] = vc * 6 + pf;
			vh_case_begin(render, &fc);
			int fd = tbl_write(&cfg, e, n, NULL);
			char path[64]; snprintf(path, sizeof path, "/proc/self/fd/%d", fd);
			g_said_ok = 0;
			int lowfd1 = dup(0); close(lowfd1);
			bool vok = verify_file(path);
			syscall(SYS_close_range, (unsigned) lowfd1, ~0U, 0);
			if (!vok || g_said_ok != 1) vh_violation("intact-rejected", "mtbl_verify does not report an intact writer-produced file as OK (comp %d, mask %u, values %u, prefix %zu)", comps[ci], mask, vc, PFX[pf]);
			struct mtbl_reader_options *ro = mtbl_reader_options_init(); mtbl_reader_options_set_verify_checksums(ro, true);
			struct mtbl_reader *r = mtbl_reader_init_fd(fd, ro); mtbl_reader_options_destroy(&ro);
			if (!r) vh_violation("intact-rejected", "verify_checksums reader refuses an intact file");
			else { struct mtbl_iter *it = mtbl_source_iter(mtbl_reader_source(r)); const char *w = tbl_drain_cmp(it, e, n); if (w) vh_violation("intact-drain", "verify_checksums reader: %s", w); mtbl_iter_destroy(&it); mtbl_reader_destroy(&r); }
			for (size_t i = 0; i < n; i++) free((void *) e[i].v);
			close(fd);
			VH_COUNT("cases", 1); VH_COUNT("states", 1); VH_COUNT("transitions", 2); VH_COUNT("intact_files_verified", 1);
			vh_case_end();
			vh_sig(vh_mix(500 + ci, n));
		}
	}
}

int main(int argc, char **argv) {
	vh_init(argc, argv);
	const char *mode = vh_arg(0, "intact");
	if (vh_case_arg) {
		fcase c; memset(&c, 0, sizeof c); char what[16]; int off = 0;
		if (sscanf(vh_case_arg, "K:%d:%zu:%15[^:]%n", &c.kind, &c.region, what, &off) < 3) return 2;
		if (c.kind >= 100) { fprintf(stderr, "intact-file cases are replayed by running the 'intact' job\n"); part1(); return vh_finish(); }
		const char *s = vh_case_arg + off;
		if (!strcmp(what, "burst")) { c.is_burst = 1; sscanf(s, ":%u:%x", &c.burst_start, &c.burst_pat); }
		else { while (*s == ':' && c.nbits < 4) { c.bit[c.nbits++] = (uint32_t) strtoul(s + 1, (char **) &s, 10); } }
		seed_make(&SD, c.kind);
		struct mtbl_reader_options *ro = mtbl_reader_options_init(); mtbl_reader_options_set_verify_checksums(ro, true); g_reader = mtbl_reader_init_fd(SD.fd, ro); mtbl_reader_options_destroy(&ro);
		if (!c.is_burst && c.nbits == 0) seed_must_verify(&SD, c.kind); else check_damaged(&c);
		return vh_finish();
	}
	if (!strcmp(mode, "intact")) { part1(); if (vh_shard == 0) vh_sample("every K9 subset of size<=3 x value sizes {0,1,600}^n x 6 compression types x prefix {0,13} (every 8th table also 4096, 4097, 8205, 65536): mtbl_verify says OK and a verify_checksums reader drains it"); return vh_finish(); }
	/* damage: mode = "damage <kind>" */
	int k_lo = atoi(vh_arg(1, "0")), k_hi = vh_argc > 2 ? atoi(vh_arg(2, "0")) : k_lo;
	g_maxtriple_bits = vh_thorough ? 700 : 260;
	for (g_kind = k_lo; g_kind <= k_hi && !vh_too_many(); g_kind++) {
	if (g_kind > k_lo) seed_free(&SD);
	seed_make(&SD, g_kind);
	if (vh_shard == 0) seed_must_verify(&SD, g_kind);
	visit_no = 0; enumerate(visit_count); uint64_t total = visit_no;
	for (batch_lo = 0; batch_lo < total && !vh_too_many(); batch_lo += (uint64_t) BATCH * vh_nshards) {
		batch_hi = batch_lo + (uint64_t) BATCH * vh_nshards;
		if (vh_time_up()) break;
		if (vh_batch_fork()) {
			struct mtbl_reader_options *ro = mtbl_reader_options_init(); mtbl_reader_options_set_verify_checksums(ro, true); g_reader = mtbl_reader_init_fd(SD.fd, ro); mtbl_reader_options_destroy(&ro);
			if (!g_reader) { printf("@error \"cksum: seed does not open\"\n"); _exit(2); }
			visit_no = 0; enumerate(visit_run);
			vh_count("verify_rejected", n_verify_failed); vh_count("reader_stopped", n_reader_stopped);
			vh_sig(vh_mix(g_kind, batch_lo / BATCH));
			vh_batch_exit();
		}
	}
	}
	g_kind = k_hi;
	vh_max("max_region_bits", 0); for (size_t r = 0; r < SD.nregions; r++) vh_max("max_region_bits", region_len(&SD, r) * 8);
	if (vh_shard == 0) { fcase c = { g_kind, 1, 3, { 3, 40, 41 }, 0, 0, 0 }; char b[128]; render(b, sizeof b, &c); vh_sample("%s", b); }
	seed_free(&SD);
	return vh_finish();
}
