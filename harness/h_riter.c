/* C03 (and the reader part of C11): explicit-state search over the real reader_iter.
 * A state is the operation history that reaches it, replayed on fresh iterators of a freshly opened reader;
 * states are deduplicated by a canonical hash of the private iterator fields + the reference model's state.
 * A second mode ("tree") explores all histories up to a small depth WITHOUT deduplication, so that the verdict does not
 * rest on the state abstraction alone. */
#ifndef VH_BLACKBOX      /* white-box view: private structures of the repository, used ONLY to identify states (canon_sys) */
#include "iter.c"
#include "block.c"
#include "reader.c"
#endif
#include "tbl.h"
#ifndef VH_BLACKBOX
#include "canon_reader.h"
#endif

/* ------------------------------------------------------------ table under test */
#define MAXN 48
typedef struct {
	tcfg cfg; int nlayout; int layout[8]; int keyfam;
	size_t n; tkv e[MAXN];
	int fd; uint8_t *bytes; size_t flen; ic_file f;
	/* seek targets */
	int nt; struct { uint8_t b[8]; size_t n; } t[160];
} rtable;

static void tgt_add(rtable *T, const uint8_t *p, size_t n) {
	if (n > 8 || T->nt >= 160) return;
	for (int i = 0; i < T->nt; i++) if (T->t[i].n == n && !memcmp(T->t[i].b, p, n)) return;
	memcpy(T->t[T->nt].b, p, n); T->t[T->nt].n = n; T->nt++;
}
static void tgt_neigh(rtable *T, const uint8_t *k, size_t n, int rich) {
	uint8_t t[10];
	if (n > 6) return;
	tgt_add(T, k, n);
	if (n) { memcpy(t, k, n); if (t[n - 1] > 0) { t[n - 1]--; t[n] = 0xff; tgt_add(T, t, n + 1); } }   /* just below */
	if (rich) { memcpy(t, k, n); t[n] = 0; tgt_add(T, t, n + 1); if (n) tgt_add(T, k, n - 1); }       /* just above, prefix */
}
static const char *table_desc(const rtable *T) {
	static char b[200]; int o = snprintf(b, sizeof b, "%d,%zu,%zu,%d;", T->cfg.comp, T->cfg.restart, T->cfg.prefix, T->keyfam);
	for (int i = 0; i < T->nlayout; i++) o += snprintf(b + o, sizeof b - o, "%d.", T->layout[i]);
	return b;
}
/* key families: 0 = pairs sharing a first byte (0x40+i/2, 0x10|0x30), 1 = nested prefixes a, a0, a00.. mixed with siblings, 2 = single bytes incl. 00 and ff */
static size_t make_key(int fam, int i, int total, uint8_t *k) {
	switch (fam) {
	case 0: k[0] = 0x40 + i / 2; k[1] = (i % 2) ? 0x30 : 0x10; return 2;
	case 1: { int g = i / 3, d = i % 3; k[0] = 0x61 + g; for (int j = 0; j < d; j++) k[1 + j] = 0x00; return 1 + d; }
	default: if (i == 0) return 0; if (i == total - 1) { k[0] = 0xff; k[1] = 0xff; return 2; } k[0] = (uint8_t) (i * 255 / total); return 1;
	}
}
static int table_build(rtable *T) {
	T->n = 0; T->nt = 0;
	int total = 0; for (int b = 0; b < T->nlayout; b++) total += T->layout[b];
	int gi = 0;
	size_t interval = T->cfg.restart ? T->cfg.restart : 16;
	for (int b = 0; b < T->nlayout; b++) {
		int cnt = T->layout[b];
		/* simulate the block builder's size estimate so that the writer cuts exactly after cnt entries:
		 * entries 1..cnt-1 carry 20-byte values, the last one fills the block up to just below the cut threshold */
		size_t est = 8, counter = 0; uint8_t prev[8]; size_t prevl = 0;
		for (int j = 0; j < cnt; j++, gi++) {
			uint8_t kb[8]; size_t kl = make_key(T->keyfam, gi, total, kb);
			size_t shared = 0;
			if (counter < interval) { while (shared < prevl && shared < kl && prev[shared] == kb[shared]) shared++; } else { est += 4; counter = 0; }
			size_t vl = 20;
			if (j == cnt - 1) vl = 1024 - 16 - kl - est - 1;
			est += 2 + (vl < 128 ? 1 : 2) + (kl - shared) + vl; counter++;
			memcpy(prev, kb, kl); prevl = kl;
			uint8_t *kk = malloc(kl + 1); memcpy(kk, kb, kl);
			T->e[T->n].k = kk; T->e[T->n].kl = kl; T->e[T->n].vl = vl; T->e[T->n].v = tbl_val(gi + 1, vl); T->n++;
		}
	}
	T->cfg.block_size = 1024;
	T->fd = tbl_write(&T->cfg, T->e, T->n, NULL);
	T->bytes = tbl_slurp(T->fd, &T->flen);
	if (ic_decode(T->bytes, T->flen, &T->f)) { printf("@error \"riter: cannot decode table %s\"\n", T->f.err); return -1; }
	if ((int) T->f.nblocks != T->nlayout) return -2;
	for (int b = 0; b < T->nlayout; b++) if ((int) T->f.blocks[b].n != T->layout[b]) return -2;
	int rich = T->n <= 8;
	tgt_add(T, (const uint8_t *) "", 0);
	for (size_t i = 0; i < T->n; i++) tgt_neigh(T, T->e[i].k, T->e[i].kl, rich);
	for (size_t b = 0; b < T->f.nblocks; b++) tgt_neigh(T, T->f.index.e[b].key, T->f.index.e[b].klen, 0);
	tgt_add(T, (const uint8_t *) "\xff\xff\xff", 3);
	return 0;
}
static void table_free(rtable *T) {
	for (size_t i = 0; i < T->n; i++) { free((void *) T->e[i].k); free((void *) T->e[i].v); }
	ic_free(&T->f); free(T->bytes); close(T->fd); T->n = 0;
}

/* ------------------------------------------------------------ iterators + reference model */
enum { K_ITER, K_GET, K_PREFIX, K_RANGE };
typedef struct { int kind; int a, b; } ispec;        /* a, b: target indices (bound arguments) */
typedef struct {
	ispec sp; struct mtbl_iter *it;
	size_t next_idx; bool failed;                        /* reference state */
	bool have_last; const uint8_t *lk, *lv; size_t lkl, lvl; size_t last_idx;
} rit;
#define MAXIT 2
typedef struct { rtable *T; struct mtbl_reader *r; int m; rit it[MAXIT]; } rsys;

static size_t lower_bound(const rtable *T, const uint8_t *k, size_t kl) { size_t i = 0; while (i < T->n && vh_bscmp(T->e[i].k, T->e[i].kl, k, kl) < 0) i++; return i; }
static bool in_bound(const rtable *T, const ispec *sp, size_t idx) {
	const tkv *e = &T->e[idx];
	switch (sp->kind) {
	case K_ITER: return true;
	case K_GET: return vh_bscmp(e->k, e->kl, T->t[sp->a].b, T->t[sp->a].n) == 0;
	case K_PREFIX: return vh_has_prefix(e->k, e->kl, T->t[sp->a].b, T->t[sp->a].n);
	default: return vh_bscmp(e->k, e->kl, T->t[sp->b].b, T->t[sp->b].n) <= 0;
	}
}
/* seek precondition: target at or after the start of the iterator's range */
static bool seek_allowed(const rtable *T, const ispec *sp, int t) {
	if (sp->kind == K_ITER) return true;
	return vh_bscmp(T->t[t].b, T->t[t].n, T->t[sp->a].b, T->t[sp->a].n) >= 0;
}

static char g_fail[512];
static int sys_open(rsys *S, rtable *T, int m, const ispec *sp) {
	S->T = T; S->m = m;
	struct mtbl_reader_options *ro = mtbl_reader_options_init();
	S->r = mtbl_reader_init_fd(T->fd, ro); mtbl_reader_options_destroy(&ro);
	if (!S->r) { snprintf(g_fail, sizeof g_fail, "reader does not open"); return -1; }
	const struct mtbl_source *s = mtbl_reader_source(S->r);
	for (int i = 0; i < m; i++) {
		rit *x = &S->it[i]; memset(x, 0, sizeof *x); x->sp = sp[i];
		const uint8_t *a = T->t[sp[i].a].b; size_t al = T->t[sp[i].a].n;
		/* pass harness-owned exact-size copies of the arguments */
		uint8_t *ca = malloc(al + 1); memcpy(ca, a, al);
		switch (sp[i].kind) {
		case K_ITER: x->it = mtbl_source_iter(s); x->next_idx = 0; break;
		case K_GET: x->it = mtbl_source_get(s, ca, al); x->next_idx = lower_bound(T, a, al); break;
		case K_PREFIX: x->it = mtbl_source_get_prefix(s, ca, al); x->next_idx = lower_bound(T, a, al); break;
		default: { const uint8_t *b = T->t[sp[i].b].b; size_t bl = T->t[sp[i].b].n; uint8_t *cb = malloc(bl + 1); memcpy(cb, b, bl); x->it = mtbl_source_get_range(s, ca, al, cb, bl); free(cb); x->next_idx = lower_bound(T, a, al); } break;
		}
		free(ca);
	}
	return 0;
}
static void sys_close(rsys *S) { for (int i = 0; i < S->m; i++) mtbl_iter_destroy(&S->it[i].it); mtbl_reader_destroy(&S->r); }

/* buffers handed out by iterator i must still hold the entry */
static bool check_last(rsys *S, int i) {
	rit *x = &S->it[i];
	if (!x->have_last) return true;
	const tkv *e = &S->T->e[x->last_idx];
	if (x->lkl != e->kl || x->lvl != e->vl || memcmp(x->lk, e->k, e->kl) || memcmp(x->lv, e->v, e->vl)) { snprintf(g_fail, sizeof g_fail, "buffers returned by iterator %d for key %s were modified before its next call", i, vh_hex(e->k, e->kl)); return false; }
	return true;
}
/* op: it*1000 + (0 = next, 1+t = seek(target t)); returns false and fills g_fail on an oracle mismatch */
static bool sys_step(rsys *S, int op) {
	int i = op / 1000, o = op % 1000; rit *x = &S->it[i]; rtable *T = S->T;
	for (int j = 0; j < S->m; j++) if (!check_last(S, j)) return false;
	if (o == 0) {
		const uint8_t *k = NULL, *v = NULL; size_t kl = 0, vl = 0;
		mtbl_res r = mtbl_iter_next(x->it, &k, &kl, &v, &vl);
		bool want_ok = !x->failed && x->next_idx < T->n && in_bound(T, &x->sp, x->next_idx);
		if (!want_ok) {
			x->failed = true; x->have_last = false;
			if (r == mtbl_res_success) { snprintf(g_fail, sizeof g_fail, "next on iterator %d returned key %s, expected failure", i, vh_hex(k, kl)); return false; }
		} else {
			const tkv *e = &T->e[x->next_idx];
			if (r != mtbl_res_success) { snprintf(g_fail, sizeof g_fail, "next on iterator %d failed, expected key %s", i, vh_hex(e->k, e->kl)); return false; }
			if (kl != e->kl || memcmp(k, e->k, kl)) { snprintf(g_fail, sizeof g_fail, "next on iterator %d returned key %s, expected %s", i, vh_hex(k, kl), vh_hex(e->k, e->kl)); return false; }
			if (vl != e->vl || memcmp(v, e->v, vl)) { snprintf(g_fail, sizeof g_fail, "next on iterator %d returned a wrong value for key %s", i, vh_hex(k, kl)); return false; }
			x->have_last = true; x->lk = k; x->lkl = kl; x->lv = v; x->lvl = vl; x->last_idx = x->next_idx;
			x->next_idx++;
		}
	} else {
		int t = o - 1;
		uint8_t *ck = malloc(T->t[t].n + 1); memcpy(ck, T->t[t].b, T->t[t].n);
		mtbl_res r = mtbl_iter_seek(x->it, ck, T->t[t].n);
		free(ck);
		x->have_last = false;
		if (x->it == NULL) { /* NULL iterator == empty result: seek may fail, next must fail */ x->failed = true; }
		else {
			if (r != mtbl_res_success) { snprintf(g_fail, sizeof g_fail, "seek(%s) on iterator %d reported failure", vh_hex(T->t[t].b, T->t[t].n), i); return false; }
			x->next_idx = lower_bound(T, T->t[t].b, T->t[t].n); x->failed = false;
		}
	}
	/* calls on one iterator must not disturb what the others handed out */
	for (int j = 0; j < S->m; j++) if (j != i && !check_last(S, j)) return false;
	return true;
}

/* ------------------------------------------------------------ canonical state */
#ifdef VH_BLACKBOX
/* no private view: a state is identified by its history, nothing is merged, and the search below is cut at a depth chosen from
 * the alphabet size (see bfs()) instead of running to a fixpoint */
static uint64_t canon_sys(const rsys *S, const int *ops, int n) { (void) S; uint64_t h = vh_mix(0xb1ac, (uint64_t) n); for (int i = 0; i < n; i++) h = vh_mix(h, (uint64_t) ops[i] + 1); return h; }
#else
static uint64_t canon_sys(const rsys *S, const int *ops, int n) {
	(void) ops; (void) n;
	uint64_t h = 42;
	for (int i = 0; i < S->m; i++) {
		const rit *x = &S->it[i];
		h = vh_mix(h, x->next_idx * 4 + x->failed * 2 + x->have_last);
		if (x->have_last) h = vh_mix(h, x->last_idx);
		if (!x->it) { h = vh_mix(h, 0xdead); continue; }
		h = vh_mix(h, canon_reader_iter((const struct reader_iter *) x->it->clos));
	}
	return h;
}
#endif

/* ------------------------------------------------------------ search */
typedef struct { int parent; int op; uint64_t canon; int depth; } snode;
static snode *nodes; static size_t nnodes, capnodes;
static int hist_of(int s, int *ops) { int d = nodes[s].depth; for (int i = d - 1, c = s; i >= 0; i--) { ops[i] = nodes[c].op; c = nodes[c].parent; } return d; }

typedef struct { rtable *T; int m; ispec sp[MAXIT]; int nops; int ops[64]; } rcase;
static void render(char *b, size_t n, void *ctx) {
	rcase *c = ctx; int o = snprintf(b, n, "R:%s:%d", table_desc(c->T), c->m);
	for (int i = 0; i < c->m; i++) o += snprintf(b + o, n - o, ":%d,%d,%d", c->sp[i].kind, c->sp[i].a, c->sp[i].b);
	o += snprintf(b + o, n - o, ":");
	for (int i = 0; i < c->nops && o < (int) n - 16; i++) o += snprintf(b + o, n - o, "%d%s", c->ops[i], i + 1 < c->nops ? "." : "");
}
static const char *explain(rcase *c) {
	static char b[1500]; int o = 0; rtable *T = c->T;
	o += snprintf(b + o, sizeof b - o, "table keys [");
	for (size_t i = 0; i < T->n && o < 600; i++) o += snprintf(b + o, sizeof b - o, "%s%s", vh_hex(T->e[i].k, T->e[i].kl), i + 1 < T->n ? " " : "");
	o += snprintf(b + o, sizeof b - o, "] blocks ");
	for (int i = 0; i < T->nlayout; i++) o += snprintf(b + o, sizeof b - o, "%d%s", T->layout[i], i + 1 < T->nlayout ? "+" : "");
	for (int i = 0; i < c->m; i++) {
		static const char *kn[] = { "iter", "get", "get_prefix", "get_range" };
		o += snprintf(b + o, sizeof b - o, "; it%d=%s(", i, kn[c->sp[i].kind]);
		if (c->sp[i].kind != K_ITER) o += snprintf(b + o, sizeof b - o, "%s", vh_hex(T->t[c->sp[i].a].b, T->t[c->sp[i].a].n));
		if (c->sp[i].kind == K_RANGE) o += snprintf(b + o, sizeof b - o, ",%s", vh_hex(T->t[c->sp[i].b].b, T->t[c->sp[i].b].n));
		o += snprintf(b + o, sizeof b - o, ")");
	}
	o += snprintf(b + o, sizeof b - o, "; ops:");
	for (int i = 0; i < c->nops && o < 1300; i++) { int it = c->ops[i] / 1000, op = c->ops[i] % 1000; if (op == 0) o += snprintf(b + o, sizeof b - o, " it%d.next", it); else o += snprintf(b + o, sizeof b - o, " it%d.seek(%s)", it, vh_hex(T->t[op - 1].b, T->t[op - 1].n)); }
	return b;
}

/* replay a full history; returns false (violation already reported) on mismatch */
static bool run_history(rcase *c, uint64_t *canon_out) {
	rsys S; vh_case_seq++;
	if (sys_open(&S, c->T, c->m, c->sp)) { vh_violation("open", "%s", g_fail); return false; }
	bool ok = true;
	for (int i = 0; i < c->nops; i++) {
		if (!sys_step(&S, c->ops[i])) { int keep = c->nops; c->nops = i + 1; vh_violation("seek-contract", "%s  [%s]", g_fail, explain(c)); c->nops = keep; ok = false; break; }
		VH_COUNT("transitions", 1);
	}
	if (ok) for (int j = 0; j < S.m; j++) if (!check_last(&S, j)) { vh_violation("buffers", "%s  [%s]", g_fail, explain(c)); ok = false; break; }
	if (canon_out) *canon_out = canon_sys(&S, c->ops, c->nops);
	sys_close(&S);
	VH_COUNT("executions", 1);
	return ok;
}

static int build_alphabet(rcase *c, int *alpha) {
	int na = 0;
	for (int i = 0; i < c->m; i++) { alpha[na++] = i * 1000; for (int t = 0; t < c->T->nt; t++) if (seek_allowed(c->T, &c->sp[i], t)) alpha[na++] = i * 1000 + 1 + t; }
	return na;
}

static size_t g_state_cap = 60000;
static bool bfs(rcase *c) {
	static vh_set seen; vh_set_free(&seen);
	nnodes = 0;
	int alpha[400]; int na = build_alphabet(c, alpha);
	uint64_t h0; c->nops = 0;
	vh_case_begin(render, c);
	if (!run_history(c, &h0)) { vh_case_end(); return false; }
	if (nnodes == capnodes) { capnodes = capnodes ? capnodes * 2 : 4096; nodes = realloc(nodes, capnodes * sizeof *nodes); }
	nodes[nnodes++] = (snode) { -1, 0, h0, 0 }; vh_set_add(&seen, h0);
	bool ok = true; int maxdepth = 0;
	for (size_t s = 0; s < nnodes && ok; s++) {
		int base[64]; int d = hist_of((int) s, base);
		if (d >= 62) { VH_COUNT("bfs_depth_cap_hit", 1); break; }
#ifdef VH_BLACKBOX
		{ double lim = vh_thorough ? 300000.0 : 4000.0, p = 1; int D = 0; while (p * na <= lim || D < 2) { p *= na; D++; } if (d >= D) continue; vh_max("blackbox_depth", D); }
#endif
		for (int ai = 0; ai < na; ai++) {
			memcpy(c->ops, base, d * sizeof(int)); c->ops[d] = alpha[ai]; c->nops = d + 1;
			uint64_t h;
			/* replay prefix + one new step on fresh objects */
			vh_case_seq++;
			rsys S;
			if (sys_open(&S, c->T, c->m, c->sp)) { vh_violation("open", "%s", g_fail); ok = false; break; }
			bool stepok = true;
			for (int i = 0; i < d && stepok; i++) stepok = sys_step(&S, c->ops[i]);
			if (!stepok) { vh_violation_case("nondeterminism", vh_cur_case(), "prefix that passed before now fails: %s", g_fail); printf("@error \"riter: replay of a checked prefix failed (uncontrolled nondeterminism)\"\n"); sys_close(&S); ok = false; break; }
			if (canon_sys(&S, c->ops, d) != nodes[s].canon) { printf("@error \"riter: canonical state differs between two replays of the same history\"\n"); sys_close(&S); ok = false; break; }
			if (!sys_step(&S, alpha[ai])) { vh_violation("seek-contract", "%s  [%s]", g_fail, explain(c)); sys_close(&S); ok = false; break; }
			h = canon_sys(&S, c->ops, d + 1);
			sys_close(&S);
			VH_COUNT("transitions", 1); VH_COUNT("executions", 1);
			if (vh_set_add(&seen, h)) {
				if (nnodes >= g_state_cap) { VH_COUNT("bfs_state_cap_hit", 1); s = nnodes; break; }
				if (nnodes == capnodes) { capnodes *= 2; nodes = realloc(nodes, capnodes * sizeof *nodes); }
				nodes[nnodes++] = (snode) { (int) s, alpha[ai], h, d + 1 };
				if (d + 1 > maxdepth) maxdepth = d + 1;
			}
		}
	}
	vh_case_end();
	VH_COUNT("states", nnodes); VH_COUNT("searches", 1); vh_max("max_bfs_depth", maxdepth); vh_max("max_states_per_search", nnodes);
	return ok;
}

/* all histories up to depth D without deduplication */
static bool tree(rcase *c, int D) {
	int alpha[400]; int na = build_alphabet(c, alpha);
	int ix[8] = { 0 };
	vh_case_begin(render, c);
	bool ok = true;
	for (int d = 0; d <= D && ok; d++) {
		memset(ix, 0, sizeof ix);
		for (;;) {
			c->nops = d; for (int i = 0; i < d; i++) c->ops[i] = alpha[ix[i]];
			/* only leaves of length d: shorter ones were run as their own length; but oracle is checked on every step anyway */
			if (!run_history(c, NULL)) { ok = false; break; }
			VH_COUNT("states", 1);
			int p = d - 1; while (p >= 0 && ++ix[p] == na) { ix[p] = 0; p--; }
			if (p < 0) break;
		}
	}
	vh_case_end();
	VH_COUNT("searches", 1);
	return ok;
}

/* ------------------------------------------------------------ enumeration */
static int find_tgt(rtable *T, const uint8_t *k, size_t n) { for (int i = 0; i < T->nt; i++) if (T->t[i].n == n && !memcmp(T->t[i].b, k, n)) return i; return 0; }

static int iter_specs(rtable *T, ispec *out, int rich) {
	int n = 0;
	out[n++] = (ispec) { K_ITER, 0, 0 };
	int first = find_tgt(T, T->e[0].k, T->e[0].kl), lastk = find_tgt(T, T->e[T->n - 1].k, T->e[T->n - 1].kl);
	/* keys at block boundaries: last of block 0 and first of block 1 */
	int mid = (int) T->n / 2; if (T->f.nblocks > 1) mid = (int) T->f.blocks[0].n;
	if (mid >= (int) T->n) mid = (int) T->n - 1;
	int midk = find_tgt(T, T->e[mid].k, T->e[mid].kl);
	uint8_t below[8]; size_t bl = T->e[mid].kl; memcpy(below, T->e[mid].k, bl); int midbelow = 0;
	if (bl && below[bl - 1] > 0) { below[bl - 1]--; below[bl] = 0xff; midbelow = find_tgt(T, below, bl + 1); }
	int top = find_tgt(T, (const uint8_t *) "\xff\xff\xff", 3);
	out[n++] = (ispec) { K_GET, first, 0 }; out[n++] = (ispec) { K_GET, midk, 0 }; out[n++] = (ispec) { K_GET, midbelow, 0 };
	if (rich) { out[n++] = (ispec) { K_GET, lastk, 0 }; out[n++] = (ispec) { K_GET, top, 0 }; }
	out[n++] = (ispec) { K_PREFIX, 0, 0 };                                   /* empty prefix */
	{ uint8_t p1[1]; if (T->e[mid].kl) { p1[0] = T->e[mid].k[0]; tgt_add(T, p1, 1); out[n++] = (ispec) { K_PREFIX, find_tgt(T, p1, 1), 0 }; } }
	if (mid > 0 && T->e[mid - 1].kl) { uint8_t p1[1] = { T->e[mid - 1].k[0] }; tgt_add(T, p1, 1); out[n++] = (ispec) { K_PREFIX, find_tgt(T, p1, 1), 0 }; }
	out[n++] = (ispec) { K_PREFIX, midk, 0 };
	if (rich) out[n++] = (ispec) { K_PREFIX, midbelow, 0 };
	out[n++] = (ispec) { K_RANGE, first, lastk }; out[n++] = (ispec) { K_RANGE, midbelow, top }; out[n++] = (ispec) { K_RANGE, 0, midk };
	out[n++] = (ispec) { K_RANGE, midk, first };                              /* reversed */
	if (rich) { out[n++] = (ispec) { K_RANGE, midk, midk }; out[n++] = (ispec) { K_RANGE, midbelow, midbelow }; out[n++] = (ispec) { K_RANGE, first, midbelow }; }
	return n;
}

static uint64_t g_idx;
static void explore_table(rtable *T, const char *mode, int treedepth) {
	int rc = table_build(T);
	if (rc == -2) { VH_COUNT("layouts_not_realised", 1); table_free(T); return; }
	if (rc) { table_free(T); return; }
	ispec sp[32]; int ns = iter_specs(T, sp, T->n <= 8);
	rcase c; memset(&c, 0, sizeof c); c.T = T;
	uint64_t sig = vh_mix(vh_mix(T->cfg.comp, T->cfg.restart), T->cfg.prefix != 0);
	for (int i = 0; i < T->nlayout; i++) sig = vh_mix(sig, T->layout[i]);
	if (!strcmp(mode, "pair")) {
		/* product of two iterators of the same reader */
		static const int pairs[][2] = { {0, 0}, {0, 1}, {0, 6}, {2, 10} };
		for (unsigned p = 0; p < sizeof pairs / sizeof *pairs && !vh_too_many(); p++) {
			if (pairs[p][0] >= ns || pairs[p][1] >= ns) continue;
			c.m = 2; c.sp[0] = sp[pairs[p][0]]; c.sp[1] = sp[pairs[p][1]];
			bfs(&c); vh_sig(vh_mix(sig, 1000 + p));
		}
	} else {
		for (int i = 0; i < ns && !vh_too_many(); i++) {
			c.m = 1; c.sp[0] = sp[i];
			if (!strcmp(mode, "bfs")) bfs(&c); else tree(&c, treedepth);
			vh_sig(vh_mix(sig, sp[i].kind * 7 + i));
		}
	}
	if (VH_WANT_SAMPLE() && T->nlayout > 1) { c.m = 1; c.sp[0] = sp[0]; c.nops = 3; c.ops[0] = 0; c.ops[1] = 0; c.ops[2] = 1 + 1; vh_sample("%s", explain(&c)); }
	VH_COUNT("tables", 1); if (T->nlayout > 1) VH_COUNT("multi_block_tables", 1);
	table_free(T);
}

static void enum_layouts(const char *mode, int maxblocks, int maxper, int treedepth) {
	static rtable T;
	static const size_t RS_Q[] = { 1, 2, 3, 16 };
	int lay[8];
	for (int m = 1; m <= maxblocks; m++) {
		int total = 1; for (int i = 0; i < m; i++) total *= maxper;
		for (int code = 0; code < total; code++) {
			int x = code; for (int i = 0; i < m; i++) { lay[i] = 1 + x % maxper; x /= maxper; }
			for (int ri = 0; ri < 4; ri++) for (int pf = 0; pf < 2; pf++) for (int cp = 0; cp < 2; cp++) for (int kf = 0; kf < (vh_thorough ? 3 : 2); kf++) {
				if (!vh_mine(g_idx++)) continue;
				if (vh_time_up() || vh_too_many()) return;
				memset(&T, 0, sizeof T);
				T.cfg.restart = RS_Q[ri]; T.cfg.prefix = pf ? 13 : 0; T.cfg.comp = cp ? 3 : 0; T.keyfam = kf;
				T.nlayout = m; memcpy(T.layout, lay, sizeof(int) * m);
				explore_table(&T, mode, treedepth);
			}
		}
	}
}
/* big single/double blocks: many entries per block so that galloping, binary search and restart tracking in block_iter_seek have room */
static void enum_bigblocks(const char *mode, int treedepth) {
	static rtable T;
	static const int L[][3] = { {10, 0, 0}, {7, 0, 0}, {10, 10, 0}, {9, 5, 0}, {5, 10, 2} };
	for (unsigned li = 0; li < sizeof L / sizeof *L; li++) for (size_t r = 1; r <= 4; r++) for (int cp = 0; cp < 2; cp++) for (int kf = 0; kf < 2; kf++) {
		if (!vh_mine(g_idx++)) continue;
		if (vh_time_up() || vh_too_many()) return;
		memset(&T, 0, sizeof T);
		T.cfg.restart = r; T.cfg.prefix = li & 1 ? 13 : 0; T.cfg.comp = cp ? 3 : 0; T.keyfam = kf;
		T.nlayout = 0; for (int i = 0; i < 3; i++) if (L[li][i]) T.layout[T.nlayout++] = L[li][i];
		explore_table(&T, mode, treedepth);
	}
}

int main(int argc, char **argv) {
	vh_init(argc, argv);
	if (vh_case_arg) {
		static rtable T; rcase c; memset(&c, 0, sizeof c); memset(&T, 0, sizeof T); c.T = &T;
		const char *s = vh_case_arg; int off = 0;
		if (sscanf(s, "R:%d,%zu,%zu,%d;%n", &T.cfg.comp, &T.cfg.restart, &T.cfg.prefix, &T.keyfam, &off) < 4) return 2;
		s += off;
		while (*s && *s != ':') { int v, o2; if (sscanf(s, "%d.%n", &v, &o2) < 1) break; T.layout[T.nlayout++] = v; s += o2; }
		if (table_build(&T)) { fprintf(stderr, "cannot rebuild table\n"); return 2; }
		ispec tmp[32]; iter_specs(&T, tmp, T.n <= 8);      /* adds the same extra targets as the exploration did */
		if (sscanf(s, ":%d%n", &c.m, &off) < 1) return 2; s += off;
		for (int i = 0; i < c.m; i++) { if (sscanf(s, ":%d,%d,%d%n", &c.sp[i].kind, &c.sp[i].a, &c.sp[i].b, &off) < 3) return 2; s += off; }
		if (*s == ':') s++;
		while (*s) { int v, o2; if (sscanf(s, "%d%n", &v, &o2) < 1) break; c.ops[c.nops++] = v; s += o2; if (*s == '.') s++; }
		vh_case_begin(render, &c);
		fprintf(stderr, "replay: %s\n", explain(&c));
		run_history(&c, NULL);
		vh_case_end();
		return vh_finish();
	}
	const char *mode = vh_arg(0, "bfs");
	if (!strcmp(mode, "bfs")) { enum_layouts("bfs", vh_thorough ? 5 : 3, 3, 0); enum_bigblocks("bfs", 0); }
	else if (!strcmp(mode, "tree")) { enum_layouts("tree", vh_thorough ? 3 : 2, 2, vh_thorough ? 4 : 3); enum_bigblocks("tree", vh_thorough ? 3 : 2); }
	else if (!strcmp(mode, "pair")) { enum_layouts("pair", vh_thorough ? 3 : 2, 2, 0); }
	return vh_finish();
}
