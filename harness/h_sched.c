/* C13 / C14 (and the in-flight-destroy part of C18): schedule exploration of the real threadpool.c under vsched.
 * Stateless depth-first search over choice sequences with iterative context bounding (CHESS): every schedule with at most
 * B preemptions (and at most S spurious wake-ups) of each scenario is executed and checked.
 *   args: <scenario> <P> <J> <bound> [spur=<S>] [unlockpts]
 */
#include "vsched.h"
#include "threadpool.c"          /* compiled here so that its pthread calls are routed through vsched.h */
#include "tbl.h"
#include <dirent.h>
int __lsan_do_recoverable_leak_check(void) __attribute__((weak));
static int count_fds(void) { DIR *d = opendir("/proc/self/fd"); int n = 0; struct dirent *e; while ((e = readdir(d))) if (e->d_name[0] != '.') n++; closedir(d); return n - 1; }

/* ------------------------------------------------------------ scenarios */
static int P, J, BOUND, SPUR, UNLOCKPTS, J2 = -1, SMEM = 1;   /* J2: jobs of the second caller thread when it differs from J (argument j2=) */
static const char *SCEN;
static char g_oracle[512];

/* --- pool core --- */
#define MAXJ 8
typedef struct { int id; int ndeliv; int order[2 * MAXJ]; } client;
static client cl[2];
static void *job_cb(void *arg) { return arg; }
static void res_cb0(void *res, void *data) { client *c = data; c->order[c->ndeliv++ % (2 * MAXJ)] = (int) (intptr_t) res; }
static uint64_t g_order_sig;

static void client_run(client *c, struct threadpool *pool, bool ordered, int njobs) {
	c->ndeliv = 0;
	struct result_handler *rh = result_handler_init(res_cb0, c);
	for (int j = 0; j < njobs; j++) threadpool_dispatch(pool, rh, ordered, job_cb, (void *) (intptr_t) (c->id * 100 + j + 1));
	result_handler_destroy(&rh);
}
static bool client_check(client *c, bool ordered, int njobs) {
	if (c->ndeliv != njobs) { snprintf(g_oracle, sizeof g_oracle, "client %d: %d results delivered for %d jobs", c->id, c->ndeliv, njobs); return false; }
	unsigned seen = 0;
	for (int i = 0; i < njobs; i++) {
		int j = c->order[i] - c->id * 100 - 1;
		if (j < 0 || j >= njobs || (seen >> j & 1)) { snprintf(g_oracle, sizeof g_oracle, "client %d: result %d delivered twice or unknown", c->id, c->order[i]); return false; }
		seen |= 1u << j;
		if (ordered && j != i) { snprintf(g_oracle, sizeof g_oracle, "client %d: ordered delivery out of order (position %d holds job %d)", c->id, i, j); return false; }
		g_order_sig = vh_mix(g_order_sig, j);
	}
	return true;
}
static struct threadpool *g_shared_pool; static bool g_ordered2;
static void *caller_thread(void *arg) { client *c = arg; client_run(c, g_shared_pool, g_ordered2, J2 >= 0 ? J2 : J); return NULL; }

static bool scen_pool(bool ordered, int nclients, bool two_callers) {
	struct threadpool *pool = threadpool_init(P);
	cl[0].id = 1; cl[1].id = 2;
	if (two_callers) {
		pthread_t t; g_shared_pool = pool; g_ordered2 = ordered;
		pthread_create(&t, NULL, caller_thread, &cl[1]);
		client_run(&cl[0], pool, ordered, J);
		pthread_join(t, NULL);
	} else {
		/* one caller drives one or two clients, interleaving their dispatches */
		struct result_handler *rh[2];
		for (int c = 0; c < nclients; c++) { cl[c].ndeliv = 0; rh[c] = result_handler_init(res_cb0, &cl[c]); }
		for (int j = 0; j < J; j++) for (int c = 0; c < nclients; c++) threadpool_dispatch(pool, rh[c], ordered, job_cb, (void *) (intptr_t) (cl[c].id * 100 + j + 1));
		for (int c = 0; c < nclients; c++) result_handler_destroy(&rh[c]);
	}
	threadpool_destroy(&pool);
	for (int c = 0; c < (two_callers ? 2 : nclients); c++) if (!client_check(&cl[c], ordered, (two_callers && c == 1 && J2 >= 0) ? J2 : J)) return false;
	return true;
}

/* --- writer on a pool --- */
static uint8_t *g_base; static size_t g_baselen;       /* pool-less output */
static int g_wcomp;
static uint8_t wi_keys[8][2]; static uint8_t *wi_vals[8];
/* block sizes alternate: an entry larger than the block size (1500 bytes) and a tiny one (40 bytes), so that blocks above and below
 * any size threshold are in flight together */
static size_t wi_len(int i) { return (i % 2 == 0) ? 1500 : 40; }
static void writer_input_init(void) { for (int i = 0; i < 8; i++) { wi_keys[i][0] = 'k'; wi_keys[i][1] = '0' + i; wi_vals[i] = tbl_val(i + 1, wi_len(i)); } }   /* once, before any thread exists */
static void writer_input(tkv *e, int n) { for (int i = 0; i < n; i++) { e[i].k = wi_keys[i]; e[i].kl = 2; e[i].v = wi_vals[i]; e[i].vl = wi_len(i); } }
static bool scen_writer(int nwriters) {
	struct mtbl_threadpool *tp = mtbl_threadpool_init(P);
	tkv e[8]; writer_input(e, J);
	int fd[2]; struct mtbl_writer *w[2];
	for (int k = 0; k < nwriters; k++) {
		tcfg cfg = { 0 }; cfg.comp = g_wcomp; cfg.block_size = 1024; cfg.pool = tp;
		fd[k] = tbl_memfd();
		struct mtbl_writer_options *o = tbl_wopt(&cfg);
		w[k] = mtbl_writer_init_fd(fd[k], o); mtbl_writer_options_destroy(&o);
	}
	for (int i = 0; i < J; i++) for (int k = 0; k < nwriters; k++) mtbl_writer_add(w[k], e[i].k, e[i].kl, e[i].v, e[i].vl);
	for (int k = 0; k < nwriters; k++) mtbl_writer_destroy(&w[k]);
	mtbl_threadpool_destroy(&tp);
	bool ok = true;
	for (int k = 0; k < nwriters; k++) {
		size_t len; uint8_t *b = tbl_slurp(fd[k], &len);
		if (len != g_baselen || memcmp(b, g_base, len)) { snprintf(g_oracle, sizeof g_oracle, "pooled writer %d produced %zu bytes that differ from the pool-less output (%zu bytes)", k, len, g_baselen); ok = false; }
		free(b); close(fd[k]);
	}
	return ok;
}
static struct mtbl_threadpool *g_tp;
static void *writer_thread(void *arg) {
	int *out = arg; tkv e[8]; writer_input(e, J);
	tcfg cfg = { 0 }; cfg.comp = g_wcomp; cfg.block_size = 1024; cfg.pool = g_tp;
	*out = tbl_memfd();
	struct mtbl_writer_options *o = tbl_wopt(&cfg);
	struct mtbl_writer *w = mtbl_writer_init_fd(*out, o); mtbl_writer_options_destroy(&o);
	for (int i = 0; i < J; i++) mtbl_writer_add(w, e[i].k, e[i].kl, e[i].v, e[i].vl);
	mtbl_writer_destroy(&w);
	return NULL;
}
static bool scen_writer2t(void) {
	g_tp = mtbl_threadpool_init(P);
	int fd[2]; pthread_t t;
	pthread_create(&t, NULL, writer_thread, &fd[1]);
	writer_thread(&fd[0]);
	pthread_join(t, NULL);
	mtbl_threadpool_destroy(&g_tp);
	bool ok = true;
	for (int k = 0; k < 2; k++) { size_t len; uint8_t *b = tbl_slurp(fd[k], &len); if (len != g_baselen || memcmp(b, g_base, len)) { snprintf(g_oracle, sizeof g_oracle, "writer of caller thread %d differs from the pool-less output", k); ok = false; } free(b); close(fd[k]); }
	return ok;
}

/* --- sorter on a pool (hook: one entry per chunk) --- */
static const char *g_tmpdir;
static void fold_merge(void *clos, const uint8_t *key, size_t kl, const uint8_t *v0, size_t l0, const uint8_t *v1, size_t l1, uint8_t **out, size_t *outl) {
	(void) clos; (void) key; (void) kl; *outl = l0 + l1 + 3; *out = malloc(*outl);
	(*out)[0] = '('; memcpy(*out + 1, v0, l0); (*out)[1 + l0] = '+'; memcpy(*out + 2 + l0, v1, l1); (*out)[2 + l0 + l1] = ')';
}
static bool scen_sorter(bool destroy_early) {
	static const char *keys[] = { "b", "a", "b", "a" };
	struct mtbl_threadpool *tp = mtbl_threadpool_init(P);
	struct mtbl_sorter_options *so = mtbl_sorter_options_init();
	mtbl_sorter_options_set_temp_dir(so, g_tmpdir); mtbl_sorter_options_set_max_memory(so, (size_t) SMEM);   /* 1: every add spills; mem=40: two entries per chunk, so a rest stays buffered until iteration starts */
	mtbl_sorter_options_set_merge_func(so, fold_merge, NULL); mtbl_sorter_options_set_threadpool(so, tp);
	struct mtbl_sorter *s = mtbl_sorter_init(so); mtbl_sorter_options_destroy(&so);
	char vb[8];
	for (int i = 0; i < J; i++) { sprintf(vb, "t%d", i); mtbl_sorter_add(s, (const uint8_t *) keys[i % 4], 1, (const uint8_t *) vb, 2); }
	bool ok = true;
	if (!destroy_early) {
		struct mtbl_iter *it = mtbl_sorter_iter(s);
		const uint8_t *k, *v; size_t kl, vl; int n = 0; unsigned seen = 0; char last = 0;
		while (it && mtbl_iter_next(it, &k, &kl, &v, &vl) == mtbl_res_success) {
			if (kl != 1 || k[0] <= last) { snprintf(g_oracle, sizeof g_oracle, "sorter output not strictly ascending"); ok = false; break; }
			last = k[0]; n++;
			for (size_t i = 0; i + 1 < vl; i++) if (v[i] == 't') { int id = v[i + 1] - '0'; if (id < 0 || id >= J || (seen >> id & 1) || keys[id % 4][0] != k[0]) { snprintf(g_oracle, sizeof g_oracle, "value of key %c folds a wrong/duplicate leaf t%d", k[0], id); ok = false; } seen |= 1u << id; }
		}
		if (ok && seen != (1u << J) - 1) { snprintf(g_oracle, sizeof g_oracle, "sorter lost values: leaf mask %x of %x", seen, (1u << J) - 1); ok = false; }
		if (ok && n != (J >= 2 ? 2 : J)) { snprintf(g_oracle, sizeof g_oracle, "sorter yields %d keys", n); ok = false; }
		mtbl_iter_destroy(&it);
	}
	mtbl_sorter_destroy(&s);
	mtbl_threadpool_destroy(&tp);
	return ok;
}

/* --- several threads iterating/querying one open reader through their own iterators (no synchronisation at all) --- */
static int g_rfd = -1; static struct mtbl_reader *g_reader; static int g_rd_err;
static void *reader_thread(void *arg) {
	int me = (int) (intptr_t) arg; const struct mtbl_source *s = mtbl_reader_source(g_reader);
	const uint8_t *k, *v; size_t kl, vl; int n = 0;
	struct mtbl_iter *it = mtbl_source_iter(s);
	while (mtbl_iter_next(it, &k, &kl, &v, &vl) == mtbl_res_success) n++;
	mtbl_iter_seek(it, (const uint8_t *) "k2", 2); if (mtbl_iter_next(it, &k, &kl, &v, &vl) != mtbl_res_success || k[1] != '2') g_rd_err++;
	mtbl_iter_destroy(&it);
	if (n != 6) g_rd_err++;
	char q[3] = { 'k', (char) ('0' + me % 6), 0 };
	it = mtbl_source_get(s, (const uint8_t *) q, 2); if (mtbl_iter_next(it, &k, &kl, &v, &vl) != mtbl_res_success) g_rd_err++; mtbl_iter_destroy(&it);
	it = mtbl_source_get_prefix(s, (const uint8_t *) "k", 1); n = 0; while (mtbl_iter_next(it, &k, &kl, &v, &vl) == mtbl_res_success) n++; mtbl_iter_destroy(&it); if (n != 6) g_rd_err++;
	it = mtbl_source_get_range(s, (const uint8_t *) "k1", 2, (const uint8_t *) "k4", 2); n = 0; while (mtbl_iter_next(it, &k, &kl, &v, &vl) == mtbl_res_success) n++; mtbl_iter_destroy(&it); if (n != 4) g_rd_err++;
	return NULL;
}
static bool scen_reader(void) {
	/* P = number of threads, J selects the table's compression: 0 none, 1 lz4, 2 zlib, 3 zstd, 4 snappy, 5 lz4hc */
	if (g_rfd < 0) { tkv e[8]; writer_input(e, 6); tcfg cfg = { 0 }; { static const int CM[6] = { 0, 3, 2, 5, 1, 4 }; cfg.comp = CM[J % 6]; }   /* none, lz4, zlib, zstd, snappy, lz4hc */ cfg.block_size = 1024; g_rfd = tbl_write(&cfg, e, 6, NULL); }
	struct mtbl_reader_options *ro = mtbl_reader_options_init(); mtbl_reader_options_set_verify_checksums(ro, true);
	g_reader = mtbl_reader_init_fd(g_rfd, ro); mtbl_reader_options_destroy(&ro);
	g_rd_err = 0;
	pthread_t t[8];
	for (int i = 0; i < P; i++) pthread_create(&t[i], NULL, reader_thread, (void *) (intptr_t) i);
	for (int i = 0; i < P; i++) pthread_join(t[i], NULL);
	mtbl_reader_destroy(&g_reader);
	if (g_rd_err) { snprintf(g_oracle, sizeof g_oracle, "%d wrong results from concurrent readers", g_rd_err); return false; }
	return true;
}

/* Every execution stands for a fresh process: library globals that are resolved lazily on first use are put back to the value they had when
 * main() started. On the pinned tree the CRC dispatch pointer is resolved by a constructor before main(), so this changes nothing there; a
 * tree that resolves it on the first call does so inside whichever thread computes the first checksum, in every execution (seed R7-C14). */
typedef uint32_t (*crc_fp_t)(const uint8_t *, size_t);
extern crc_fp_t my_crc32c;
static crc_fp_t g_crc_initial;
static bool body(void) {
	my_crc32c = g_crc_initial;
	g_oracle[0] = 0; g_order_sig = 7;
	if (!strcmp(SCEN, "pool-ordered")) return scen_pool(true, 1, false);
	if (!strcmp(SCEN, "pool-unordered")) return scen_pool(false, 1, false);
	if (!strcmp(SCEN, "pool2-ordered")) return scen_pool(true, 2, false);
	if (!strcmp(SCEN, "pool2-unordered")) return scen_pool(false, 2, false);
	if (!strcmp(SCEN, "pool2t-ordered")) return scen_pool(true, 2, true);
	if (!strcmp(SCEN, "pool2t-unordered")) return scen_pool(false, 2, true);
	if (!strcmp(SCEN, "writer")) return scen_writer(1);
	if (!strcmp(SCEN, "writer2")) return scen_writer(2);
	if (!strcmp(SCEN, "writer2t")) return scen_writer2t();
	if (!strcmp(SCEN, "sorter")) return scen_sorter(false);
	if (!strcmp(SCEN, "sorter-destroy")) return scen_sorter(true);
	if (!strcmp(SCEN, "reader-shared")) return scen_reader();
	fprintf(stderr, "unknown scenario %s\n", SCEN); exit(2);
}

/* ------------------------------------------------------------ explorer */
typedef struct { int n; uint8_t c[VS_MAXPTS]; } seq;
static seq g_cur;
static void render(char *b, size_t n, void *ctx) {
	(void) ctx; int o = snprintf(b, n, "V:%s:%d:%d:%d:%d:", SCEN, P, J, SPUR, UNLOCKPTS);
	for (int i = 0; i < g_cur.n && o < (int) n - 4; i++) o += snprintf(b + o, n - o, "%d%s", g_cur.c[i], i + 1 < g_cur.n ? "." : "");
}
static void fatal_hook(const char *what) {
	/* the scheduler found a deadlock / misuse: report with the choices made so far and die */
	vh_emit_violation(strstr(what, "deadlock") ? "deadlock" : "sync-misuse", vh_cur_case(), what);
	fflush(stdout);
}
static uint64_t n_exec, n_with_preempt, n_blocked_cond, n_blocked_mutex, n_blocked_join;
static int g_tsan_reports;
#if defined(__SANITIZE_THREAD__)
#define HAVE_TSAN 1
#elif defined(__has_feature)
#if __has_feature(thread_sanitizer)
#define HAVE_TSAN 1
#endif
#endif
#ifdef HAVE_TSAN
int __tsan_on_report(void *rep); int __tsan_on_report(void *rep) { (void) rep; g_tsan_reports++; return 0; }
#endif

static vs_result g_res;
static bool run_once(const uint8_t *prefix, int nprefix, bool count) {
	/* the breadcrumb shows the prefix while running; replaced by the full choice sequence afterwards */
	g_cur.n = nprefix; memcpy(g_cur.c, prefix, nprefix); vh_case_seq++;
	int before = g_tsan_reports;
	vs_begin(prefix, nprefix, SPUR, UNLOCKPTS);
	bool ok = body();
	const vs_result *r = vs_end();
	g_res = *r;
	g_cur.n = r->npts; memcpy(g_cur.c, r->choice, r->npts);
	/* ThreadSanitizer prints each distinct race once per process: catch it in whichever execution it shows up, planning runs included */
	if (g_tsan_reports != before) { vh_violation("data-race", "ThreadSanitizer reported %d data race(s) in this schedule (see stderr)", g_tsan_reports - before); before = g_tsan_reports; }
	if (!count) return ok;
	n_exec++; VH_COUNT("executions", 1); VH_COUNT("transitions", r->npts);
	if (r->preemptions) n_with_preempt++;
	n_blocked_cond += r->blocked_cond; n_blocked_mutex += r->blocked_mutex; n_blocked_join += r->blocked_join;
	vh_max("max_points_per_execution", r->npts); vh_max("max_threads", r->threads_created);
	if (!ok) vh_violation("oracle", "%s", g_oracle);
	if (r->live_by_fn_max > P) vh_violation("too-many-workers", "%d worker threads were alive at once, the pool's maximum is %d", r->live_by_fn_max, P);
	if (g_tsan_reports != before) vh_violation("data-race", "ThreadSanitizer reported %d data race(s) in this schedule (see stderr)", g_tsan_reports - before);
	vh_sig(vh_mix(g_order_sig, r->preemptions * 8 + r->spurious));
	return ok;
}

typedef struct { int n; uint8_t *c; int pre, spur; bool leaf_only; } item;
static item *items; static size_t nitems, capitems;
static void item_push(const uint8_t *c, int n, int pre, int spur, bool leaf) {
	if (nitems == capitems) { capitems = capitems ? capitems * 2 : 1024; items = realloc(items, capitems * sizeof *items); }
	items[nitems].c = malloc(n + 1); memcpy(items[nitems].c, c, n); items[nitems].n = n; items[nitems].pre = pre; items[nitems].spur = spur; items[nitems].leaf_only = leaf; nitems++;
}
/* children of the execution just run (g_res) below prefix length n0, given the deviations already spent in the prefix */
static vh_set g_seen; static int g_use_cache = 1; static uint64_t n_pruned;
static void children(int n0, int pre0, int spur0, void (*emit)(const uint8_t *, int, int, int)) {
	static uint8_t buf[VS_MAXPTS];
	vs_result *rp = malloc(sizeof *rp); *rp = g_res;   /* copy: emit() runs further executions */
	int pre = pre0, spur = spur0;
	/* deviations spent between n0 and i are zero by construction (default choices), so the cost at i is the cost of the prefix */
	for (int i = n0; i < rp->npts; i++) {
		if (g_use_cache) {
			/* happens-before state caching: if an equivalent state was already expanded with no more budget spent, everything from here on
			 * (the default continuation and every alternative) has been explored */
			bool covered = false;
			for (int p = 0; p <= pre && !covered; p++) for (int q = 0; q <= spur; q++) if (g_seen.cap) { uint64_t k = vh_mix(vh_mix(rp->sh[i], p), q); if (k == 0) k = 1; size_t j = (k * 0x9e3779b97f4a7c15ULL >> 17) & (g_seen.cap - 1); while (g_seen.t[j]) { if (g_seen.t[j] == k) { covered = true; break; } j = (j + 1) & (g_seen.cap - 1); } if (covered) break; }
			if (covered) { n_pruned++; break; }
			vh_set_add(&g_seen, vh_mix(vh_mix(rp->sh[i], pre), spur));
		}
		for (int alt = 1; alt < rp->nopt[i]; alt++) {
			bool is_spur = alt >= rp->nopt[i] - rp->nspur[i];
			int p2 = pre + (!is_spur && rp->altcost[i] ? 1 : 0), s2 = spur + (is_spur ? 1 : 0);
			if (p2 > BOUND || s2 > SPUR) continue;
			memcpy(buf, rp->choice, i); buf[i] = (uint8_t) alt;
			emit(buf, i + 1, p2, s2);
		}
	}
	free(rp);
}
static void explore(const uint8_t *prefix, int n, int pre, int spur);
static void emit_explore(const uint8_t *c, int n, int pre, int spur) { uint8_t *cp = malloc(n); memcpy(cp, c, n); explore(cp, n, pre, spur); free(cp); }
static void explore(const uint8_t *prefix, int n, int pre, int spur) {
	if (vh_too_many()) return;
	if ((n_exec & 255) == 0 && vh_time_up()) return;
	run_once(prefix, n, true);
	children(n, pre, spur, emit_explore);
}
static void emit_item(const uint8_t *c, int n, int pre, int spur) { item_push(c, n, pre, spur, false); }

int main(int argc, char **argv) {
	g_crc_initial = my_crc32c;
	vh_init(argc, argv);
	vs_fatal_hook = fatal_hook; vs_watch_fn = thread_worker; writer_input_init();
	static char dirb[256]; snprintf(dirb, sizeof dirb, "%s/vs.%d", access("/dev/shm", W_OK) == 0 ? "/dev/shm" : "/var/tmp", (int) getpid()); mkdir(dirb, 0700); g_tmpdir = dirb;
	if (vh_case_arg) {
		static char sc[64]; static uint8_t pfx[VS_MAXPTS]; int np = 0, off = 0;
		if (sscanf(vh_case_arg, "V:%63[^:]:%d:%d:%d:%d:%n", sc, &P, &J, &SPUR, &UNLOCKPTS, &off) < 5) return 2;
		SCEN = sc; BOUND = 99;
		for (int i = 0; i < vh_argc; i++) { if (!strncmp(vh_argv[i], "comp=", 5)) g_wcomp = atoi(vh_argv[i] + 5); if (!strncmp(vh_argv[i], "j2=", 3)) J2 = atoi(vh_argv[i] + 3); if (!strncmp(vh_argv[i], "mem=", 4)) SMEM = atoi(vh_argv[i] + 4); }   /* the driver passes the job's arguments on replay */
		const char *s = vh_case_arg + off; while (*s) { int v, o2; if (sscanf(s, "%d%n", &v, &o2) < 1) break; pfx[np++] = v; s += o2; if (*s == '.') s++; }
		if (!strncmp(SCEN, "writer", 6)) { tkv e[8]; writer_input(e, J); tcfg cfg = { 0 }; cfg.comp = g_wcomp; cfg.block_size = 1024; int fd = tbl_write(&cfg, e, J, NULL); g_base = tbl_slurp(fd, &g_baselen); close(fd); }
		vh_case_begin(render, NULL);
		run_once(pfx, np, true); run_once(pfx, np, true);   /* twice: the observation must be identical */
		vh_case_end();
		rmdir(dirb);
		return vh_finish();
	}
	SCEN = vh_arg(0, "pool-ordered"); P = atoi(vh_arg(1, "1")); J = atoi(vh_arg(2, "2")); BOUND = atoi(vh_arg(3, "1"));
	for (int i = 4; i < vh_argc; i++) { if (!strncmp(vh_argv[i], "spur=", 5)) SPUR = atoi(vh_argv[i] + 5); if (!strcmp(vh_argv[i], "unlockpts")) UNLOCKPTS = 1; if (!strcmp(vh_argv[i], "nocache")) g_use_cache = 0; if (!strncmp(vh_argv[i], "comp=", 5)) g_wcomp = atoi(vh_argv[i] + 5); if (!strncmp(vh_argv[i], "j2=", 3)) J2 = atoi(vh_argv[i] + 3); if (!strncmp(vh_argv[i], "mem=", 4)) SMEM = atoi(vh_argv[i] + 4); }
	if (!strncmp(SCEN, "writer", 6)) { tkv e[8]; writer_input(e, J); tcfg cfg = { 0 }; cfg.comp = g_wcomp; cfg.block_size = 1024; int fd = tbl_write(&cfg, e, J, NULL); g_base = tbl_slurp(fd, &g_baselen); close(fd); }
	for (int i = 4; i < vh_argc; i++) if (!strncmp(vh_argv[i], "free=", 5)) {
		/* free-running cross-check: real pthreads, no scheduler; repeated a fixed number of times per shard */
		int reps = atoi(vh_argv[i] + 5); vs_passthrough = 1;
		vh_case_begin(render, NULL);
		for (int r = 0; r < reps && !vh_too_many(); r++) {
			int before = g_tsan_reports; vh_case_seq++;
			bool ok = body();
			if (!ok) vh_violation("oracle", "free-running: %s", g_oracle);
			if (g_tsan_reports != before) vh_violation("data-race", "ThreadSanitizer reported %d data race(s) in a free-running execution (see stderr)", g_tsan_reports - before);
			VH_COUNT("executions", 1); VH_COUNT("free_running_executions", 1); VH_COUNT("states", 1); VH_COUNT("transitions", 1);
		}
		vh_case_end();
		vh_sig(vh_mix(0xf4ee, P * 16 + J));
		rmdir(dirb);
		return vh_finish();
	}
	int fds_before = count_fds();
	vh_case_begin(render, NULL);
	/* work splitting: expand the root breadth-first until there are enough independent subtrees; every shard computes the same list */
	item_push((const uint8_t *) "", 0, 0, 0, false);
	for (size_t h = 0; h < nitems && nitems < 256; h++) {
		if (items[h].leaf_only) continue;
		item it = items[h];
		run_once(it.c, it.n, false);                       /* planning run, not counted: the owner of the leaf item counts it */
		children(it.n, it.pre, it.spur, emit_item);
		items[h].leaf_only = true;
	}
	for (size_t k = 0; k < nitems && !vh_too_many(); k++) {
		if (!vh_mine(k)) continue;
		if (vh_time_up()) break;
		if (items[k].leaf_only) run_once(items[k].c, items[k].n, true);
		else explore(items[k].c, items[k].n, items[k].pre, items[k].spur);
	}
	if (!strcmp(vh_prop, "C18")) {
		/* resource oracle over the whole exploration: no descriptor and no unreachable heap block may remain */
		int fds_after = count_fds();
		if (fds_after != fds_before) vh_violation("fd", "%d descriptors were left open by the explored executions", fds_after - fds_before);
		if (__lsan_do_recoverable_leak_check && __lsan_do_recoverable_leak_check()) vh_violation("heap", "LeakSanitizer found unreachable allocations after the explored executions (see stderr)");
		VH_COUNT("leak_checks", 1);
	}
	vh_case_end();
	vh_count("states", g_use_cache ? g_seen.n : n_exec); vh_count("subtrees_pruned_by_hb_cache", n_pruned); vh_count("executions_with_preemption", n_with_preempt);
	vh_count("cond_waits", n_blocked_cond); vh_count("contended_locks", n_blocked_mutex); vh_count("blocking_joins", n_blocked_join);
	if (vh_shard == 0) { char b[300]; g_cur.n = g_res.npts; memcpy(g_cur.c, g_res.choice, g_res.npts); render(b, sizeof b, NULL); vh_sample("%s", b); }
	rmdir(dirb);
	return vh_finish();
}
