/* tbl.h -- helpers shared by the table-level harnesses: key pools, value synthesis, writing a table through the real
 * mtbl_writer into a memfd, reading it back, reference table. */
#ifndef TBL_H
#define TBL_H
#include "vh.h"
#include "icodec.h"
#include <mtbl.h>

typedef struct { const uint8_t *k; size_t kl; const uint8_t *v; size_t vl; } tkv;

typedef struct {
	int comp; bool uselevel; int level;
	size_t block_size;      /* 0 = default */
	size_t restart;         /* 0 = default */
	size_t prefix;          /* foreign bytes before the table */
	struct mtbl_threadpool *pool;
} tcfg;

static const char *tcfg_str(const tcfg *c) {
	static char b[160];
	snprintf(b, sizeof b, "comp=%d,lvl=%s%d,bs=%zu,ri=%zu,pfx=%zu,pool=%d", c->comp, c->uselevel ? "" : "dflt", c->uselevel ? c->level : 0, c->block_size, c->restart, c->prefix, c->pool != NULL);
	return b;
}

/* ---- key pools ---- */
/* K9 = { e, 00, 0000, 01, 7f, 80, 8000, ff, ffff } (sorted) */
static const struct { uint8_t b[2]; size_t n; } TBL_K9[9] = {
	{ {0, 0}, 0 }, { {0x00, 0}, 1 }, { {0x00, 0x00}, 2 }, { {0x01, 0}, 1 }, { {0x7f, 0}, 1 }, { {0x80, 0}, 1 }, { {0x80, 0x00}, 2 }, { {0xff, 0}, 1 }, { {0xff, 0xff}, 2 } };

/* U5(L): all strings of length <= L over {00,01,7f,80,ff}, in sorted order */
typedef struct { uint8_t b[4]; size_t n; } u5key;
static const uint8_t TBL_A5[5] = { 0x00, 0x01, 0x7f, 0x80, 0xff };
static size_t u5_gen_rec(u5key *out, size_t pos, uint8_t *cur, size_t len, size_t maxlen) {
	memcpy(out[pos].b, cur, len); out[pos].n = len; pos++;
	if (len == maxlen) return pos;
	for (int i = 0; i < 5; i++) { cur[len] = TBL_A5[i]; pos = u5_gen_rec(out, pos, cur, len + 1, maxlen); }
	return pos;
}
static size_t u5_gen(u5key *out, size_t maxlen) { uint8_t cur[4]; return u5_gen_rec(out, 0, cur, 0, maxlen); }  /* 31 for L=2, 156 for L=3 */

/* universe 16: all strings of length 3..4 over {00,01,fe,ff} (for the 16-bit branch of the shortest-separator computation: carries, adjacent bytes) */
static size_t u16_gen(u5key *out) { static const uint8_t A[4] = { 0x00, 0x01, 0xfe, 0xff }; size_t n = 0; for (int len = 3; len <= 4; len++) { int total = 1; for (int i = 0; i < len; i++) total *= 4; for (int x = 0; x < total; x++) { int y = x; for (int i = len - 1; i >= 0; i--) { out[n].b[i] = A[y % 4]; y /= 4; } out[n].n = len; n++; } } /* sort */ for (size_t i = 1; i < n; i++) { u5key t = out[i]; size_t j = i; while (j > 0 && vh_bscmp(out[j - 1].b, out[j - 1].n, t.b, t.n) > 0) { out[j] = out[j - 1]; j--; } out[j] = t; } return n; }

/* value synthesis: deterministic bytes from (tag, len) */
static uint8_t *tbl_val(uint32_t tag, size_t len) {
	uint8_t *v = malloc(len + 1);
	uint32_t x = tag * 2654435761u + 12345;
	for (size_t i = 0; i < len; i++) { x = x * 1103515245u + 12345u; v[i] = (uint8_t) (x >> 16); }
	if (len >= 1) v[0] = (uint8_t) tag;
	return v;
}

/* ---- memfd ---- */
static int tbl_memfd(void) {
	int fd = memfd_create("verif-tbl", 0);
	if (fd < 0) { perror("memfd_create"); abort(); }
	return fd;
}
static uint8_t tbl_prefix_byte(size_t i) { return (uint8_t) (0xA5 ^ (i * 7)); }
static uint8_t *tbl_slurp(int fd, size_t *len) {
	struct stat st; fstat(fd, &st);
	uint8_t *b = malloc(st.st_size + 1);
	size_t got = 0;
	while (got < (size_t) st.st_size) { ssize_t r = pread(fd, b + got, st.st_size - got, got); if (r <= 0) { perror("pread"); abort(); } got += r; }
	*len = got; return b;
}
static int tbl_fd_from_bytes(const uint8_t *b, size_t n) {
	int fd = tbl_memfd();
	size_t put = 0; while (put < n) { ssize_t r = write(fd, b + put, n - put); if (r <= 0) { perror("write"); abort(); } put += r; }
	return fd;
}

static struct mtbl_writer_options *tbl_wopt(const tcfg *c) {
	struct mtbl_writer_options *o = mtbl_writer_options_init();
	mtbl_writer_options_set_compression(o, (mtbl_compression_type) c->comp);
	if (c->uselevel) mtbl_writer_options_set_compression_level(o, c->level);
	if (c->block_size) mtbl_writer_options_set_block_size(o, c->block_size);
	if (c->restart) mtbl_writer_options_set_block_restart_interval(o, c->restart);
	if (c->pool) mtbl_writer_options_set_threadpool(o, c->pool);
	return o;
}
static size_t tcfg_block_size(const tcfg *c) { return c->block_size ? (c->block_size < 1024 ? 1024 : c->block_size) : 8192; }
static size_t tcfg_restart(const tcfg *c) { return c->restart ? c->restart : 16; }

/* write n entries through the real writer; res[i] receives the result of each add (may be NULL).
 * returns a memfd holding prefix + table (offset unspecified). */
static int tbl_write(const tcfg *c, const tkv *e, size_t n, mtbl_res *res) {
	int fd = tbl_memfd();
	for (size_t i = 0; i < c->prefix; i++) { uint8_t b = tbl_prefix_byte(i); if (write(fd, &b, 1) != 1) abort(); }
	struct mtbl_writer_options *o = tbl_wopt(c);
	struct mtbl_writer *w = mtbl_writer_init_fd(fd, o);
	mtbl_writer_options_destroy(&o);
	for (size_t i = 0; i < n; i++) {
		mtbl_res r = mtbl_writer_add(w, e[i].k, e[i].kl, e[i].v, e[i].vl);
		if (res) res[i] = r;
	}
	mtbl_writer_destroy(&w);
	return fd;
}

/* compare a full iteration of `it` with the reference sequence; returns NULL if equal else a message */
static const char *tbl_drain_cmp(struct mtbl_iter *it, const tkv *e, size_t n) {
	static char m[512];
	const uint8_t *k, *v; size_t kl, vl; size_t i = 0;
	while (it && mtbl_iter_next(it, &k, &kl, &v, &vl) == mtbl_res_success) {
		if (i >= n) { snprintf(m, sizeof m, "extra entry #%zu key=%s", i, vh_hex(k, kl)); return m; }
		if (kl != e[i].kl || memcmp(k, e[i].k, kl)) { snprintf(m, sizeof m, "entry #%zu key=%s expected %s", i, vh_hex(k, kl), vh_hex(e[i].k, e[i].kl)); return m; }
		if (vl != e[i].vl || memcmp(v, e[i].v, vl)) { snprintf(m, sizeof m, "entry #%zu key=%s: value differs (len %zu, expected %zu)", i, vh_hex(k, kl), vl, e[i].vl); return m; }
		i++;
	}
	if (i != n) { snprintf(m, sizeof m, "iteration ended after %zu of %zu entries", i, n); return m; }
	/* sticky failure */
	if (it && mtbl_iter_next(it, &k, &kl, &v, &vl) == mtbl_res_success) { snprintf(m, sizeof m, "next succeeded again after reporting the end"); return m; }
	return NULL;
}
#endif
