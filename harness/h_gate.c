/* C08: writer ordering gate + exclusive create.  Also serves C10 (statistics after refused adds). */
#include "tbl.h"
#include <dirent.h>

static const struct { uint8_t b[2]; size_t n; } POOL[8] = {
	{ {0, 0}, 0 }, { {'a', 0}, 1 }, { {'a', 0}, 2 }, { {'a', 'b'}, 2 }, { {'b', 0}, 1 }, { {0x7f, 0}, 1 }, { {0x80, 0}, 1 }, { {0xff, 0xff}, 2 } };
/* second pool: keys of 4-5 bytes whose leading bytes span the whole byte range (word-wise or signed comparisons go wrong here) */
static const struct { uint8_t b[5]; size_t n; } POOL2[8] = {
	{ {0x00, 0x00, 0x00, 0x00, 0x00}, 5 }, { {0x00, 0x00, 0x00, 0x01}, 4 }, { {0x01, 0x61, 0x61, 0x61}, 4 }, { {0x7f, 0xff, 0xff, 0xff}, 4 },
	{ {0x80, 0x00, 0x00, 0x00}, 4 }, { {0xf0, 0x61, 0x61, 0x61}, 4 }, { {0xff, 0xff, 0xff, 0xfe}, 4 }, { {0xff, 0xff, 0xff, 0xff}, 4 } };
static int P08, P10;

typedef struct { int n; int key[8]; int big[8]; int comp; int restart; int pool; } gcase;
static void render(char *b, size_t n, void *ctx) {
	gcase *c = ctx; int o = snprintf(b, n, "G:%d:%d:", c->comp, c->restart + 100 * c->pool);
	for (int i = 0; i < c->n; i++) o += snprintf(b + o, n - o, "%d%c", c->key[i], c->big[i] ? 'B' : 's');
}

static void run(gcase *c) {
	vh_case_begin(render, c);
	tkv e[8]; mtbl_res res[8]; bool acc[8];
	for (int i = 0; i < c->n; i++) { e[i].k = c->pool ? POOL2[c->key[i]].b : POOL[c->key[i]].b; e[i].kl = c->pool ? POOL2[c->key[i]].n : POOL[c->key[i]].n; e[i].vl = c->big[i] ? 600 : 1; e[i].v = tbl_val(i + 1, e[i].vl); }
	tcfg cfg = { 0 }; cfg.comp = c->comp; cfg.block_size = 1024; cfg.restart = c->restart;
	int fd = tbl_write(&cfg, e, c->n, res);
	/* reference gate: strictly greater than the last accepted key */
	int last = -1; tkv want[8]; size_t nw = 0; int nref = 0;
	for (int i = 0; i < c->n; i++) {
		bool ok = last < 0 || vh_bscmp(e[i].k, e[i].kl, e[last].k, e[last].kl) > 0;
		acc[i] = ok; if (ok) { last = i; want[nw++] = e[i]; } else nref++;
		if (P08 && (res[i] == mtbl_res_success) != ok) vh_violation("gate", "add #%d (key %s) %s, reference gate says %s", i, vh_hex(e[i].k, e[i].kl), res[i] == mtbl_res_success ? "accepted" : "refused", ok ? "accept" : "refuse");
	}
	VH_COUNT("transitions", c->n); if (nref) VH_COUNT("cases_with_refusal", 1);
	size_t flen; uint8_t *bytes = tbl_slurp(fd, &flen);
	ic_file f;
	if (ic_decode(bytes, flen, &f)) vh_violation("undecodable", "independent decoder rejects the file: %s", f.err);
	else {
		size_t idx = 0; bool bad = false; uint64_t kb = 0, vb = 0, db = 0;
		for (size_t b = 0; b < f.nblocks && !bad; b++) { db += f.blocks[b].total_len; for (size_t i = 0; i < f.blocks[b].n; i++, idx++) {
			const ic_ent *x = &f.blocks[b].e[i]; kb += x->klen; vb += x->vlen;
			if (idx >= nw || x->klen != want[idx].kl || memcmp(x->key, want[idx].k, x->klen) || x->vlen != want[idx].vl || memcmp(x->val, want[idx].v, x->vlen)) { if (P08) vh_violation("content", "file entry #%zu (key %s) is not the #%zu accepted entry", idx, vh_hex(x->key, x->klen), idx); bad = true; break; }
		} }
		if (!bad && idx != nw && P08) vh_violation("content", "file holds %zu entries, %zu adds were accepted by the reference gate", idx, nw);
		if (P08) { const char *w = ic_check_written(&f, flen, 0, c->restart, 1024); if (w) vh_violation("malformed", "%s", w); }
		/* trailer counters reflect accepted entries only */
		if (!bad) {
			if (f.n_entries != nw) vh_violation("count_entries", "trailer count_entries = %" PRIu64 ", accepted %zu", f.n_entries, nw);
			if (f.bytes_keys != kb || f.bytes_vals != vb) vh_violation("bytes", "trailer key/value byte sums %" PRIu64 "/%" PRIu64 " != accepted entries %" PRIu64 "/%" PRIu64, f.bytes_keys, f.bytes_vals, kb, vb);
			if (P10) {
				struct mtbl_reader *r = mtbl_reader_init_fd(fd, NULL);
				if (!r) vh_violation("noreader", "reader refuses the file");
				else {
					const struct mtbl_metadata *m = mtbl_reader_metadata(r);
					if (mtbl_metadata_count_entries(m) != nw) vh_violation("count_entries", "count_entries accessor = %" PRIu64 ", file holds %zu", mtbl_metadata_count_entries(m), nw);
					if (mtbl_metadata_count_data_blocks(m) != f.nblocks) vh_violation("count_data_blocks", "count_data_blocks accessor = %" PRIu64 ", file holds %zu", mtbl_metadata_count_data_blocks(m), f.nblocks);
					if (mtbl_metadata_bytes_data_blocks(m) != db) vh_violation("bytes_data_blocks", "bytes_data_blocks accessor = %" PRIu64 ", file holds %" PRIu64, mtbl_metadata_bytes_data_blocks(m), db);
					if (mtbl_metadata_bytes_keys(m) != kb || mtbl_metadata_bytes_values(m) != vb) vh_violation("bytes", "key/value byte accessors wrong");
					if (mtbl_metadata_bytes_index_block(m) != f.index.total_len || mtbl_metadata_index_block_offset(m) != db) vh_violation("index", "index offset/bytes accessors wrong");
					mtbl_reader_destroy(&r);
				}
			}
		}
		vh_sig(vh_mix(vh_mix(f.nblocks, nref), nw));
		ic_free(&f);
	}
	/* round trip of accepted entries through the real reader */
	if (P08) {
		struct mtbl_reader *r = mtbl_reader_init_fd(fd, NULL);
		if (!r) vh_violation("noreader", "reader refuses the file");
		else { struct mtbl_iter *it = mtbl_source_iter(mtbl_reader_source(r)); const char *w = tbl_drain_cmp(it, want, nw); if (w) vh_violation("roundtrip", "%s", w); mtbl_iter_destroy(&it); mtbl_reader_destroy(&r); }
	}
	for (int i = 0; i < c->n; i++) free((void *) e[i].v);
	free(bytes); close(fd);
	VH_COUNT("cases", 1);
	(void) acc;
	vh_case_end();
}

/* ---- exclusive create ---- */
static void render_x(char *b, size_t n, void *ctx) { snprintf(b, n, "X:%s", (const char *) ctx); }
static void excl(void) {
	const char *dir = getenv("VERIF_SCRATCH_DIR"); if (!dir) dir = "/var/tmp";
	char base[512]; snprintf(base, sizeof base, "%s/gate.%d", dir, (int) getpid()); mkdir(base, 0700);
	char p[600], q[600];
	static const char *kinds[] = { "empty-file", "nonempty-file", "symlink-to-file", "dangling-symlink", "directory", "symlink-to-dir", "fresh" };
	for (int k = 0; k < 7; k++) {
		vh_case_begin(render_x, (void *) kinds[k]);
		snprintf(p, sizeof p, "%s/t%d", base, k); snprintf(q, sizeof q, "%s/target%d", base, k);
		struct stat before, after; char content[] = "precious bytes that must survive";
		int have = 0;
		switch (k) {
		case 0: close(open(p, O_CREAT | O_WRONLY, 0644)); break;
		case 1: { int fd = open(p, O_CREAT | O_WRONLY, 0644); if (write(fd, content, sizeof content) < 0) abort(); close(fd); } break;
		case 2: { int fd = open(q, O_CREAT | O_WRONLY, 0644); if (write(fd, content, sizeof content) < 0) abort(); close(fd); if (symlink(q, p)) abort(); } break;
		case 3: if (symlink(q, p)) abort(); break;
		case 4: mkdir(p, 0755); break;
		case 5: mkdir(q, 0755); if (symlink(q, p)) abort(); break;
		}
		const char *statpath = (k == 2) ? q : p;
		if (k != 6 && k != 3) { have = 1; if (lstat(statpath, &before)) abort(); }
		struct mtbl_writer *w = mtbl_writer_init(p, NULL);
		if (k == 6) {
			if (!w) vh_violation("fresh", "mtbl_writer_init on a fresh path returned NULL");
			else { mtbl_writer_add(w, (const uint8_t *) "k", 1, (const uint8_t *) "v", 1); mtbl_writer_destroy(&w); struct mtbl_reader *r = mtbl_reader_init(p, NULL); if (!r) vh_violation("fresh", "file written to a fresh path does not open"); else mtbl_reader_destroy(&r); }
		} else {
			if (w) { vh_violation("opened-existing", "mtbl_writer_init returned a writer for an existing path (%s)", kinds[k]); mtbl_writer_destroy(&w); }
			if (have) {
				if (lstat(statpath, &after)) vh_violation("vanished", "existing %s vanished", kinds[k]);
				else if (after.st_ino != before.st_ino || after.st_size != before.st_size || after.st_mtime != before.st_mtime) vh_violation("touched", "existing %s was modified (inode/size/mtime changed)", kinds[k]);
				if (k == 1 || k == 2) { char buf[64] = { 0 }; int fd = open(statpath, O_RDONLY); ssize_t n = read(fd, buf, sizeof buf); close(fd); if (n != (ssize_t) sizeof content || memcmp(buf, content, sizeof content)) vh_violation("content-changed", "content of existing %s changed", kinds[k]); }
			}
			if (k == 3) { struct stat s2; if (lstat(q, &s2) == 0) vh_violation("followed-symlink", "mtbl_writer_init created the target of a dangling symlink"); }
		}
		VH_COUNT("cases", 1); VH_COUNT("transitions", 1); VH_COUNT("excl_cases", 1);
		vh_sig(vh_mix(777, k));
		vh_case_end();
	}
	char cmd[700]; snprintf(cmd, sizeof cmd, "rm -rf '%s'", base); if (system(cmd)) {}
}

/* ------------------------------------------------------------ entries whose length does not fit the format's 32-bit length fields
 * The source buffer is virtual: one 2 MiB memfd mapped 2049 times back to back, so a 4 GiB key or value costs no memory unless the
 * writer accepts it.  An add with such a length may be refused (then it must change nothing); if it is accepted, the finished file
 * must hold exactly that entry, like any other.  (The pinned code accepted it and stored the length modulo 2^32: finding F12.) */
#include <sys/mman.h>
#define HUGE_CHUNK (2u << 20)
static uint8_t *huge_src(size_t want) {
	size_t chunks = want / HUGE_CHUNK + 2, total = chunks * HUGE_CHUNK;
	int fd = memfd_create("verif-huge", 0); if (fd < 0 || ftruncate(fd, HUGE_CHUNK)) return NULL;
	uint8_t *pat = mmap(NULL, HUGE_CHUNK, PROT_READ | PROT_WRITE, MAP_SHARED, fd, 0); if (pat == MAP_FAILED) return NULL;
	for (size_t i = 0; i < HUGE_CHUNK; i++) pat[i] = (uint8_t) (0x40 + ((i * 2654435761u) >> 13) % 59);
	/* the first bytes look like a well-formed follow-up entry, so that a truncated length turns the rest into entries nobody added */
	static const uint8_t forged[] = { 0x00, 0x06, 0x01, 'F', 'O', 'R', 'G', 'E', 'D', 'x' };
	memcpy(pat + 10, forged, sizeof forged);
	munmap(pat, HUGE_CHUNK);
	uint8_t *base = mmap(NULL, total, PROT_NONE, MAP_PRIVATE | MAP_ANONYMOUS | MAP_NORESERVE, -1, 0); if (base == MAP_FAILED) return NULL;
	for (size_t c = 0; c < chunks; c++) if (mmap(base + c * HUGE_CHUNK, HUGE_CHUNK, PROT_READ, MAP_SHARED | MAP_FIXED, fd, 0) == MAP_FAILED) return NULL;
	close(fd);
	return base;
}
static uint8_t huge_byte(const uint8_t *base, size_t i) { return base[i % HUGE_CHUNK]; }
typedef struct { int which; size_t len; } hcase;
static void hrender(char *b, size_t n, void *ctx) { hcase *h = ctx; snprintf(b, n, "H:%d:%zu", h->which, h->len); }
static void huge_one(int which, size_t len) {
	hcase hc = { which, len };
	vh_case_begin(hrender, &hc);
	if (!vh_batch_fork()) { vh_case_end(); return; }           /* parent: the child did the work (memory of an accepted entry is released with it) */
	vh_watchdog_s = 600;
	uint8_t *src = huge_src(len);
	if (!src) { printf("@note \"oversize case skipped: cannot map a %zu-byte virtual source on this machine (address space or mapping count)\"\n", len); VH_COUNT("huge_skipped_env", 1); vh_case_end(); vh_batch_exit(); }
	int fd = tbl_memfd();
	struct mtbl_writer_options *o = mtbl_writer_options_init(); mtbl_writer_options_set_compression(o, MTBL_COMPRESSION_NONE);
	struct mtbl_writer *w = mtbl_writer_init_fd(fd, o); mtbl_writer_options_destroy(&o);
	mtbl_res r0 = mtbl_writer_add(w, (const uint8_t *) "\x01", 1, (const uint8_t *) "first", 5);
	mtbl_res r1 = which == 0 ? mtbl_writer_add(w, (const uint8_t *) "b", 1, src, len)      /* huge value */
	                         : mtbl_writer_add(w, src, len, (const uint8_t *) "v", 1);     /* huge key: starts with a byte >= 0x40, sorts between 01 and ff ff */
	vh_case_seq++;
	mtbl_res r2 = mtbl_writer_add(w, (const uint8_t *) "\xff\xff", 2, (const uint8_t *) "last", 4);
	mtbl_writer_destroy(&w);
	vh_case_seq++;
	if (r0 != mtbl_res_success || r2 != mtbl_res_success) vh_violation("huge-neighbours", "the ordinary adds around the %zu-byte %s were refused (%d, %d)", len, which ? "key" : "value", r0, r2);
	VH_COUNT(r1 == mtbl_res_success ? "oversize_accepted" : "oversize_refused", 1);
	struct mtbl_reader *rd = mtbl_reader_init_fd(fd, NULL);
	if (!rd) vh_violation("huge-unreadable", "file written around a %zu-byte %s does not open", len, which ? "key" : "value");
	else {
		struct mtbl_iter *it = mtbl_source_iter(mtbl_reader_source(rd)); const uint8_t *k, *v; size_t kl, vl; int n = 0; bool ok = true; char what[200] = "";
		while (ok && mtbl_iter_next(it, &k, &kl, &v, &vl) == mtbl_res_success) {
			vh_case_seq++;
			if (n == 0) ok = kl == 1 && k[0] == 1 && vl == 5;
			else if (r1 == mtbl_res_success && n == 1) {
				size_t xl = which == 0 ? vl : kl; const uint8_t *x = which == 0 ? v : k;
				ok = xl == len && (which == 0 ? (kl == 1 && k[0] == 'b') : (vl == 1 && v[0] == 'v'));
				if (ok) { for (size_t i = 0; i < len; i += 4093) if (x[i] != huge_byte(src, i)) { ok = false; break; } if (x[len - 1] != huge_byte(src, len - 1)) ok = false; }
				if (!ok) snprintf(what, sizeof what, "entry #1 has key length %zu and value length %zu", kl, vl);
			}
			else if (n == (r1 == mtbl_res_success ? 2 : 1)) ok = kl == 2 && k[0] == 0xff && vl == 4;
			else ok = false;
			if (!ok && !what[0]) snprintf(what, sizeof what, "entry #%d has key length %zu (first byte %02x) and value length %zu", n, kl, kl ? k[0] : 0, vl);
			n++;
		}
		if (ok && n != (r1 == mtbl_res_success ? 3 : 2)) { ok = false; snprintf(what, sizeof what, "the file holds %d entries", n); }
		if (!ok) vh_violation("huge-entry", "add of a %zu-byte %s returned %s, but the finished file does not hold exactly the accepted entries: %s", len, which ? "key" : "value", r1 == mtbl_res_success ? "success" : "failure", what);
		mtbl_iter_destroy(&it); mtbl_reader_destroy(&rd);
	}
	close(fd);
	VH_COUNT("cases", 1); VH_COUNT("transitions", 3); VH_COUNT("huge_cases", 1);
	vh_sig(vh_mix(4242, which * 16 + (len >> 32) * 4 + (len & 3)));
	vh_case_end();
	vh_batch_exit();
}
static void huge(void) {
	static const size_t L[] = { (size_t) 1 << 32, ((size_t) 1 << 32) + 10 };
	for (int which = 0; which < 2; which++) for (int i = 0; i < 2; i++) huge_one(which, L[i]);
}

int main(int argc, char **argv) {
	vh_init(argc, argv);
	P08 = !strcmp(vh_prop, "C08"); P10 = !strcmp(vh_prop, "C10"); if (!P08 && !P10) P08 = P10 = 1;
	gcase c;
	if (vh_case_arg) {
		if (vh_case_arg[0] == 'X') { excl(); return vh_finish(); }
		if (vh_case_arg[0] == 'H') { int which; size_t len; if (sscanf(vh_case_arg, "H:%d:%zu", &which, &len) != 2) return 2; huge_one(which, len); return vh_finish(); }
		const char *s = vh_case_arg; int off = 0;
		if (sscanf(s, "G:%d:%d:%n", &c.comp, &c.restart, &off) < 2) return 2;
		c.pool = c.restart / 100; c.restart %= 100;
		s += off; c.n = 0;
		while (*s && c.n < 8) { c.key[c.n] = *s - '0'; c.big[c.n] = s[1] == 'B'; c.n++; s += 2; }
		run(&c); return vh_finish();
	}
	if (vh_shard == 0 && P08) excl();
	if (vh_shard == 1 % vh_nshards && P08) huge();
	int maxn = vh_thorough ? 6 : 4;
	uint64_t idx = 0;
	for (int n = 0; n <= maxn; n++) {
		uint64_t total = 1; for (int i = 0; i < n; i++) total *= 8;
		for (uint64_t x = 0; x < total; x++) {
			if (!vh_mine(idx++)) continue;
			if (vh_time_up()) goto done;
			uint64_t y = x; c.n = n; for (int i = 0; i < n; i++) { c.key[i] = y % 8; y /= 8; }
			for (unsigned bm = 0; bm < (1u << n); bm++) {
				for (int i = 0; i < n; i++) c.big[i] = bm >> i & 1;
				for (int cf = 0; cf < (vh_thorough ? (n >= 6 ? 1 : 3) : 2); cf++) {
					c.comp = cf == 2 ? 3 : 0; c.restart = cf == 1 ? 1 : 16;
					c.pool = 0; run(&c);
					if (cf == 0) { c.pool = 1; run(&c); c.pool = 0; }
					if (VH_WANT_SAMPLE() && n == maxn && x % 977 == 5) { char b[128]; render(b, sizeof b, &c); vh_sample("%s", b); }
				}
			}
			if (vh_too_many()) goto done;
		}
	}
done:
	return vh_finish();
}
