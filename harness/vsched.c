/* vsched.c -- deterministic, serialising scheduler for the pthread operations of mtbl/threadpool.c.
 * Compiled WITHOUT sanitizer instrumentation: hand-offs use raw futex system calls, so ThreadSanitizer sees none of them as
 * synchronisation; the happens-before edges the program really creates (mutex release -> acquire) are announced explicitly
 * through __tsan_release/__tsan_acquire. Exactly one registered thread runs at any time; a switch can only happen at a
 * scheduling point (mutex lock, cond wait, thread create/join/exit, optionally unlock). */
#define VSCHED_IMPL
#define _GNU_SOURCE
#include "vsched.h"
#include <linux/futex.h>
#include <sys/syscall.h>
#include <unistd.h>
#include <stdio.h>
#include <stdlib.h>
#include <string.h>
#include <limits.h>

extern void __tsan_acquire(void *) __attribute__((weak));
extern void __tsan_release(void *) __attribute__((weak));
#define TS_ACQ(p) do { if (__tsan_acquire) __tsan_acquire(p); } while (0)
#define TS_REL(p) do { if (__tsan_release) __tsan_release(p); } while (0)

enum { T_FREE, T_RUNNABLE, T_WANT, T_CWAIT, T_JOIN, T_DONE };
typedef struct {
	int state; pthread_t real; int go;
	pthread_mutex_t *wm; pthread_cond_t *wc; int wj;
	uint64_t arrival;
	void *(*fn)(void *); void *arg; void *ret;
	uint64_t hb, ident;                /* hash of this thread's causal past (happens-before), and of its creation event */
} vthr;
static vthr T[VS_MAXTHR]; static int nthr, cur;
static vs_result R;
static const uint8_t *g_prefix; static int g_nprefix; static int spur_left; static bool unlock_points;
static uint64_t arrival_seq; static int live, live_watch;
void *(*vs_watch_fn)(void *);
void (*vs_fatal_hook)(const char *what);
int vs_passthrough;               /* 1: every vs_* call goes straight to the real pthread function (free-running cross-check) */

#define MAGIC_M 0x4d757478u
#define MAGIC_C 0x436f6e64u
#define MAGIC_DEAD 0xdeadbeefu
typedef struct { uint32_t magic; int32_t owner; uint64_t id, hb; } vmutex;     /* lives inside the pthread_mutex_t storage (40 bytes) */
typedef struct { uint32_t magic; int32_t pad; uint64_t id; } vcond;
_Static_assert(sizeof(vmutex) <= sizeof(pthread_mutex_t) && sizeof(vcond) <= sizeof(pthread_cond_t), "overlay fits");

/* Happens-before hashing: every thread carries a hash of its causal past. A synchronisation operation mixes the operation
 * and the object's identity into the thread's hash; acquiring a mutex also mixes in the hash its last releaser left there,
 * being signalled mixes in the signaller's hash, join mixes in the final hash of the joined thread. Two execution prefixes
 * with the same multiset of (thread identity, hash, blocking state) are equivalent as Mazurkiewicz traces, hence reach the
 * same program state provided the program is data-race free (checked separately under ThreadSanitizer). */
static uint64_t mix(uint64_t h, uint64_t v) { h ^= v + 0x9e3779b97f4a7c15ULL + (h << 6) + (h >> 2); h *= 0xff51afd7ed558ccdULL; h ^= h >> 32; return h; }
static void ev(int t, uint64_t code, uint64_t obj) { T[t].hb = mix(mix(T[t].hb, code), obj); }

static void fatal(const char *fmt, const char *a) {
	snprintf(R.errbuf, sizeof R.errbuf, fmt, a);
	R.error = R.errbuf;
	if (vs_fatal_hook) vs_fatal_hook(R.errbuf);
	fprintf(stderr, "vsched: fatal: %s\n", R.errbuf);
	_exit(75);
}
static void fwait(int *w) { while (__atomic_load_n(w, __ATOMIC_ACQUIRE) == 0) syscall(SYS_futex, w, FUTEX_WAIT_PRIVATE, 0, NULL, NULL, 0); __atomic_store_n(w, 0, __ATOMIC_RELAXED); }
static void fwake(int *w) { __atomic_store_n(w, 1, __ATOMIC_RELEASE); syscall(SYS_futex, w, FUTEX_WAKE_PRIVATE, 1, NULL, NULL, 0); }

static bool enabled(int t) {
	switch (T[t].state) {
	case T_RUNNABLE: return true;
	case T_WANT: return ((vmutex *) T[t].wm)->owner == 0;
	case T_JOIN: return T[T[t].wj].state == T_DONE;
	default: return false;
	}
}
/* one choice point: returns the chosen option index; records it if there is more than one option */
static int choose(int nopt, int altcost, int nspur) {
	if (nopt <= 1) return 0;
	if (R.npts >= VS_MAXPTS) fatal("more than %s scheduling points in one execution (livelock?)", "4096");
	int idx = R.npts < g_nprefix ? g_prefix[R.npts] : 0;
	if (idx >= nopt) fatal("replay diverged: recorded choice out of range at a point (%s)", "nondeterminism outside the scheduler's control");
	{ uint64_t sh = mix(0x51a7e, T[cur].ident);
	  for (int t = 0; t < nthr; t++) sh += mix(mix(mix(T[t].ident, T[t].hb), (uint64_t) T[t].state), T[t].state == T_WANT || T[t].state == T_CWAIT ? ((vmutex *) T[t].wm)->id : 0);
	  R.sh[R.npts] = mix(sh, (uint64_t) nopt); }
	R.nopt[R.npts] = (uint8_t) nopt; R.choice[R.npts] = (uint8_t) idx; R.altcost[R.npts] = (uint8_t) altcost; R.nspur[R.npts] = (uint8_t) nspur;
	R.npts++;
	return idx;
}
/* pick the next thread to run; me = calling thread (may be blocked or done) */
static void schedule(void) {
	int me = cur;
	for (;;) {
		int opts[VS_MAXTHR], n = 0, spur[VS_MAXTHR], ns = 0;
		bool me_en = enabled(me);
		if (me_en) opts[n++] = me;
		for (int t = 0; t < nthr; t++) if (t != me && enabled(t)) opts[n++] = t;
		if (spur_left > 0) for (int t = 0; t < nthr; t++) if (T[t].state == T_CWAIT) spur[ns++] = t;
		if (n == 0 && ns == 0) {
			char d[200]; int o = 0;
			for (int t = 0; t < nthr && o < 180; t++) o += snprintf(d + o, sizeof d - o, "t%d:%s ", t, T[t].state == T_WANT ? "mutex" : T[t].state == T_CWAIT ? "cond" : T[t].state == T_JOIN ? "join" : T[t].state == T_DONE ? "done" : "?");
			fatal("deadlock: no thread can make progress (%s)", d);
		}
		if (n == 0) { /* only a spurious wake-up can continue: that is still a deadlock of the program */
			fatal("deadlock: every thread is blocked (%s)", "only spurious wake-ups could continue");
		}
		int idx = choose(n + ns, me_en ? 1 : 0, ns);
		if (idx >= n) {                       /* spurious wake-up of a condition waiter, then choose again */
			int t = spur[idx - n]; T[t].state = T_WANT; ev(t, 0x5b, 0); spur_left--; R.spurious++;
			continue;
		}
		int next = opts[idx];
		if (me_en && idx != 0) R.preemptions++;
		if (next == me) return;
		cur = next;
		bool me_done = T[me].state == T_DONE;
		fwake(&T[next].go);
		if (me_done) return;               /* the exiting thread just leaves */
		fwait(&T[me].go);
		return;
	}
}

static void *trampoline(void *a) {
	int me = (int) (intptr_t) a;
	fwait(&T[me].go);
	T[me].ret = T[me].fn(T[me].arg);
	ev(me, 0xdd, 0); T[me].state = T_DONE; live--; if (T[me].fn == vs_watch_fn) live_watch--;
	schedule();
	return NULL;
}

int vs_create(pthread_t *t, const pthread_attr_t *a, void *(*fn)(void *), void *arg) {
	if (vs_passthrough) return pthread_create(t, a, fn, arg);
	(void) a;
	if (nthr >= VS_MAXTHR) fatal("too many threads (%s)", "24");
	int tid = nthr++;
	memset(&T[tid], 0, sizeof T[tid]);
	T[tid].state = T_RUNNABLE; T[tid].fn = fn; T[tid].arg = arg;
	ev(cur, 0xc1, 0); T[tid].ident = mix(T[cur].hb, 0x1d); T[tid].hb = T[tid].ident;
	R.threads_created++; R.fn_of[tid] = fn;
	live++; if (live > R.max_live) R.max_live = live;
	if (fn == vs_watch_fn) { live_watch++; if (live_watch > R.live_by_fn_max) R.live_by_fn_max = live_watch; }
	if (pthread_create(&T[tid].real, NULL, trampoline, (void *) (intptr_t) tid)) fatal("real pthread_create failed (%s)", "resource limit?");
	*t = (pthread_t) (1000 + tid);
	schedule();                            /* the child is runnable from here on */
	return 0;
}
int vs_join(pthread_t t, void **ret) {
	if (vs_passthrough) return pthread_join(t, ret);
	int tid = (int) t - 1000;
	if (tid <= 0 || tid >= nthr) fatal("join of an unknown thread (%s)", "bad pthread_t");
	if (T[tid].state != T_DONE) R.blocked_join++;
	T[cur].state = T_JOIN; T[cur].wj = tid;
	schedule();
	T[cur].state = T_RUNNABLE; ev(cur, 0x70, T[tid].hb);
	pthread_join(T[tid].real, NULL);
	if (ret) *ret = T[tid].ret;
	return 0;
}
int vs_mutex_init(pthread_mutex_t *m, const pthread_mutexattr_t *a) { if (vs_passthrough) return pthread_mutex_init(m, a); (void) a; vmutex *v = (vmutex *) m; v->magic = MAGIC_M; v->owner = 0; ev(cur, 0x11, 0); v->id = mix(T[cur].hb, 0x3e); v->hb = 0; return 0; }
int vs_mutex_destroy(pthread_mutex_t *m) {
	if (vs_passthrough) return pthread_mutex_destroy(m);
	vmutex *v = (vmutex *) m;
	if (v->magic != MAGIC_M) fatal("destroy of a mutex that is not initialised (%s)", "or already destroyed");
	if (v->owner) fatal("destroy of a locked mutex (%s)", "");
	for (int t = 0; t < nthr; t++) if ((T[t].state == T_WANT || T[t].state == T_CWAIT) && T[t].wm == m) fatal("destroy of a mutex another thread is waiting for (%s)", "");
	ev(cur, 0x12, v->id); v->magic = MAGIC_DEAD;
	return 0;
}
int vs_mutex_lock(pthread_mutex_t *m) {
	if (vs_passthrough) return pthread_mutex_lock(m);
	vmutex *v = (vmutex *) m;
	if (v->magic != MAGIC_M) fatal("lock of a mutex that is not initialised (%s)", v->magic == MAGIC_DEAD ? "destroyed" : "never initialised");
	if (v->owner == cur + 1) fatal("relock of a mutex the thread already owns (%s)", "self-deadlock");
	if (v->owner) R.blocked_mutex++;
	T[cur].state = T_WANT; T[cur].wm = m;
	schedule();
	if (v->owner) fatal("internal: scheduled a thread whose mutex is taken (%s)", "");
	v->owner = cur + 1; T[cur].state = T_RUNNABLE; ev(cur, 0x13, v->id); T[cur].hb = mix(T[cur].hb, v->hb);
	TS_ACQ(m);
	return 0;
}
int vs_mutex_unlock(pthread_mutex_t *m) {
	if (vs_passthrough) return pthread_mutex_unlock(m);
	vmutex *v = (vmutex *) m;
	if (v->magic != MAGIC_M) fatal("unlock of a mutex that is not initialised (%s)", "");
	if (v->owner != cur + 1) fatal("unlock of a mutex the thread does not own (%s)", "");
	TS_REL(m);
	ev(cur, 0x14, v->id); v->hb = T[cur].hb;
	v->owner = 0;
	if (unlock_points) schedule();
	return 0;
}
int vs_cond_init(pthread_cond_t *c, const pthread_condattr_t *a) { if (vs_passthrough) return pthread_cond_init(c, a); (void) a; ((vcond *) c)->magic = MAGIC_C; ev(cur, 0x21, 0); ((vcond *) c)->id = mix(T[cur].hb, 0x3f); return 0; }
int vs_cond_destroy(pthread_cond_t *c) {
	if (vs_passthrough) return pthread_cond_destroy(c);
	if (((vcond *) c)->magic != MAGIC_C) fatal("destroy of a condition variable that is not initialised (%s)", "");
	for (int t = 0; t < nthr; t++) if (T[t].state == T_CWAIT && T[t].wc == c) fatal("destroy of a condition variable with a waiter (%s)", "");
	((vcond *) c)->magic = MAGIC_DEAD;
	return 0;
}
int vs_cond_wait(pthread_cond_t *c, pthread_mutex_t *m) {
	if (vs_passthrough) return pthread_cond_wait(c, m);
	vmutex *v = (vmutex *) m;
	if (((vcond *) c)->magic != MAGIC_C) fatal("wait on a condition variable that is not initialised (%s)", "");
	if (v->magic != MAGIC_M || v->owner != cur + 1) fatal("cond_wait without owning the mutex (%s)", "");
	TS_REL(m);
	ev(cur, 0x22, ((vcond *) c)->id); ev(cur, 0x14, v->id); v->hb = T[cur].hb;
	v->owner = 0;
	T[cur].state = T_CWAIT; T[cur].wc = c; T[cur].wm = m; T[cur].arrival = ++arrival_seq;
	R.blocked_cond++;
	schedule();
	if (v->owner) fatal("internal: woke a waiter whose mutex is taken (%s)", "");
	v->owner = cur + 1; T[cur].state = T_RUNNABLE; ev(cur, 0x13, v->id); T[cur].hb = mix(T[cur].hb, v->hb);
	TS_ACQ(m);
	return 0;
}
int vs_cond_signal(pthread_cond_t *c) {
	if (vs_passthrough) return pthread_cond_signal(c);
	if (((vcond *) c)->magic != MAGIC_C) fatal("signal on a condition variable that is not initialised (%s)", ((vcond *) c)->magic == MAGIC_DEAD ? "destroyed" : "never initialised");
	int w[VS_MAXTHR], n = 0;
	for (int t = 0; t < nthr; t++) if (T[t].state == T_CWAIT && T[t].wc == c) w[n++] = t;
	ev(cur, 0x23, ((vcond *) c)->id);
	if (n == 0) return 0;
	for (int i = 1; i < n; i++) { int x = w[i], j = i; while (j > 0 && T[w[j - 1]].arrival > T[x].arrival) { w[j] = w[j - 1]; j--; } w[j] = x; }
	int idx = choose(n, 0, 0);             /* which waiter is woken is the implementation's choice: explore all */
	T[w[idx]].state = T_WANT; ev(w[idx], 0x24, T[cur].hb);
	return 0;
}
int vs_cond_broadcast(pthread_cond_t *c) {
	if (vs_passthrough) return pthread_cond_broadcast(c);
	for (int t = 0; t < nthr; t++) if (T[t].state == T_CWAIT && T[t].wc == c) { T[t].state = T_WANT; ev(t, 0x24, T[cur].hb); }
	return 0;
}

void vs_begin(const uint8_t *prefix, int nprefix, int max_spurious, bool points_at_unlock) {
	memset(&R, 0, sizeof R); memset(T, 0, sizeof T);
	nthr = 1; cur = 0; T[0].state = T_RUNNABLE; T[0].ident = T[0].hb = 0x6d61696e;
	g_prefix = prefix; g_nprefix = nprefix; spur_left = max_spurious; unlock_points = points_at_unlock;
	arrival_seq = 0; live = 0; live_watch = 0;
}
const vs_result *vs_end(void) {
	if (cur != 0) fatal("internal: vs_end not on the main thread (%s)", "");
	for (int t = 1; t < nthr; t++) if (T[t].state != T_DONE) fatal("a thread is still alive when the scenario returns (%s)", "missing join");
	if (g_nprefix > R.npts) fatal("replay diverged: execution has fewer choice points than the recorded prefix (%s)", "nondeterminism");
	return &R;
}
