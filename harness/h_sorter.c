/* C06: sorter output is the sorted, merged input regardless of chunking; spill files only in the temp dir; spills no later
 * than the limit; add/write refused after iteration began. (sorter.c is compiled with -Dmkstemp=vf_mkstemp.) */
#include "tbl.h"
#include <pthread.h>
#include <dirent.h>

/* key pools (three keys each, ascending by index): 0 = the tiny universe; 1 = keys of 4-5 bytes whose leading bytes span 0x00..0xff (word-wise or
 * signed comparisons go wrong here, seed R6-C06); 2 = long keys in prefix relation; 3 = keys around the 0x7f/0x80 boundary */
static const struct { uint8_t b[6]; size_t n; } SKP[4][3] = {
	{ { {0}, 0 }, { {'a'}, 1 }, { {'b'}, 1 } },
	{ { {0x00, 0x00, 0x00, 0x01}, 4 }, { {0x80, 0x00, 0x00, 0x02}, 4 }, { {0xff, 0xff, 0xff, 0xff, 0x00}, 5 } },
	{ { {'a', 'b', 'c', 'd'}, 4 }, { {'a', 'b', 'c', 'd', 0x00}, 5 }, { {'a', 'b', 'c', 'e'}, 4 } },
	{ { {0x7f, 0xff, 0xff, 0xff}, 4 }, { {0x7f, 0xff, 0xff, 0xff, 0xff}, 5 }, { {0x80, 0x00, 0x00, 0x00}, 4 } },
};
static int g_kp;
#define SK SKP[g_kp]

/* ---- mkstemp seam ---- */
static pthread_mutex_t mk_mu = PTHREAD_MUTEX_INITIALIZER;
static int mk_calls; static char mk_bad[256]; static const char *mk_dir;
int vf_mkstemp(char *tmpl);
int vf_mkstemp(char *tmpl) {
	pthread_mutex_lock(&mk_mu);
	mk_calls++;
	size_t dl = strlen(mk_dir);
	if (strncmp(tmpl, mk_dir, dl) || tmpl[dl] != '/' || strstr(tmpl + dl, "/../")) snprintf(mk_bad, sizeof mk_bad, "%s", tmpl);    /* anywhere below the configured directory is "inside" */
	pthread_mutex_unlock(&mk_mu);
	return mkstemp(tmpl);
}

static void fold_merge(void *clos, const uint8_t *key, size_t kl, const uint8_t *v0, size_t l0, const uint8_t *v1, size_t l1, uint8_t **out, size_t *outl) {
	(void) clos; (void) key; (void) kl;
	*outl = l0 + l1 + 3; *out = malloc(*outl);
	(*out)[0] = '('; memcpy(*out + 1, v0, l0); (*out)[1 + l0] = '+'; memcpy(*out + 2 + l0, v1, l1); (*out)[2 + l0 + l1] = ')';
}

/* second merge style: values are unary counts ("xxxx") or decimal sums ("#12"); the result "#<sum>" is usually SHORTER than its operands.
 * Entry i carries the count 2^i, so the final sum names exactly which values were folded, each once. */
static uint64_t sum_parse(const uint8_t *v, size_t l) { if (l && v[0] == '#') { uint64_t n = 0; for (size_t i = 1; i < l; i++) n = n * 10 + (v[i] - '0'); return n; } return l; }
static void sum_merge(void *clos, const uint8_t *key, size_t kl, const uint8_t *v0, size_t l0, const uint8_t *v1, size_t l1, uint8_t **out, size_t *outl) {
	(void) clos; (void) key; (void) kl; char b[32]; int n = snprintf(b, sizeof b, "#%llu", (unsigned long long) (sum_parse(v0, l0) + sum_parse(v1, l1)));
	*out = malloc(n); memcpy(*out, b, n); *outl = n;
}
typedef struct { int kp; int n; int key[16]; size_t M; int pool; int mode; /* 0 iterate, 1 sorter_write */ int nomerge; size_t vpad; int mstyle; /* 0 fold tree, 1 shrinking sum */ } scase;
static void render(char *b, size_t n, void *ctx) {
	scase *c = ctx; int o = snprintf(b, n, "Z:%d:%zu:%d:%d:%zu:", c->pool, c->M, c->mode, c->nomerge + 2 * c->mstyle, c->vpad);
	for (int i = 0; i < c->n; i++) o += snprintf(b + o, n - o, "%d", c->key[i]);
	if (c->kp) snprintf(b + o, n - o, "%sk%d", c->n ? "" : "-", c->kp);
}

static size_t mkval(const scase *c, int i, uint8_t *out) {
	if (c->mstyle == 1) { size_t n = (size_t) 1 << i; memset(out, 'x', n); return n; }
	size_t n = sprintf((char *) out, "t%d", i);
	if (c->vpad) { memset(out + n, '.', c->vpad); n += c->vpad; }
	return n;
}
/* leaves of a fold tree must be exactly the values added for key ki */
static bool leaves_ok(const scase *c, int ki, const uint8_t *v, size_t vl, char *why, size_t wn) {
	if (c->mstyle == 1) {
		uint64_t want = 0; int nw = 0; for (int i = 0; i < c->n; i++) if (c->key[i] == ki) { want += 1ull << i; nw++; }
		for (size_t i = (vl && v[0] == '#') ? 1 : 0; i < vl; i++) if (v[0] == '#' ? (v[i] < '0' || v[i] > '9') : v[i] != 'x') { snprintf(why, wn, "value is neither a unary count nor a decimal sum (stale bytes?): %.*s", (int) (vl > 24 ? 24 : vl), v); return false; }
		if (nw == 1 && (vl == 0 || v[0] == '#')) { snprintf(why, wn, "single value must pass unchanged"); return false; }
		if (sum_parse(v, vl) != want) { snprintf(why, wn, "value sums to %llu, the values added for the key sum to %llu", (unsigned long long) sum_parse(v, vl), (unsigned long long) want); return false; }
		return true;
	}
	unsigned want = 0, seen = 0; int nwant = 0;
	for (int i = 0; i < c->n; i++) if (c->key[i] == ki) { want |= 1u << i; nwant++; }
	size_t i = 0; int depth = 0, nl = 0;
	uint8_t *tmp = malloc(c->vpad + 300);
	while (i < vl) {
		if (v[i] == '(') { depth++; i++; continue; }
		if (v[i] == ')') { depth--; i++; if (depth < 0) { snprintf(why, wn, "unbalanced fold tree"); free(tmp); return false; } continue; }
		if (v[i] == '+') { i++; continue; }
		size_t st = i; while (i < vl && v[i] != '(' && v[i] != ')' && v[i] != '+') i++;
		bool found = false;
		for (int j = 0; j < c->n; j++) if ((want >> j & 1) && !(seen >> j & 1)) { size_t l = mkval(c, j, tmp); if (l == i - st && !memcmp(tmp, v + st, l)) { seen |= 1u << j; found = true; break; } }
		if (!found) { snprintf(why, wn, "leaf '%.*s' is not an unused value added for this key", (int) (i - st > 10 ? 10 : i - st), v + st); free(tmp); return false; }
		nl++;
	}
	free(tmp);
	if (depth) { snprintf(why, wn, "unbalanced fold tree"); return false; }
	if (nl != nwant) { snprintf(why, wn, "value folds %d of the %d values added for the key", nl, nwant); return false; }
	if (nwant == 1 && vl && v[0] == '(') { snprintf(why, wn, "single value must pass unchanged"); return false; }
	return true;
}

static int count_dir(const char *d) { DIR *D = opendir(d); if (!D) return -1; int n = 0; struct dirent *e; while ((e = readdir(D))) if (e->d_name[0] != '.' || (e->d_name[1] && e->d_name[1] != '.')) n++; closedir(D); return n; }

static struct mtbl_threadpool *g_pool; static int g_poolsz;
static uint64_t g_multi_chunk, g_runs;

static void run(scase *c) {
	vh_case_begin(render, c);
	if (c->pool != g_poolsz) { if (g_pool) mtbl_threadpool_destroy(&g_pool); g_pool = c->pool ? mtbl_threadpool_init(c->pool) : NULL; g_poolsz = c->pool; }
	struct mtbl_sorter_options *so = mtbl_sorter_options_init();
	mtbl_sorter_options_set_temp_dir(so, mk_dir);
	mtbl_sorter_options_set_max_memory(so, c->M);
	if (!c->nomerge) mtbl_sorter_options_set_merge_func(so, c->mstyle ? sum_merge : fold_merge, NULL);
	if (g_pool) mtbl_sorter_options_set_threadpool(so, g_pool);
	struct mtbl_sorter *s = mtbl_sorter_init(so);
	mtbl_sorter_options_destroy(&so);
	mk_calls = 0; mk_bad[0] = 0;
	uint8_t *vb = malloc(c->vpad + 300);
	size_t buffered = 0; int spills_seen = 0;
	for (int i = 0; i < c->n; i++) {
		size_t vl = mkval(c, i, vb);
		mtbl_res r = mtbl_sorter_add(s, SK[c->key[i]].b, SK[c->key[i]].n, vb, vl);
		if (r != mtbl_res_success) vh_violation("add", "mtbl_sorter_add #%d failed", i);
		buffered += SK[c->key[i]].n + vl;
		if (!c->pool) {
			pthread_mutex_lock(&mk_mu); int calls = mk_calls; pthread_mutex_unlock(&mk_mu);
			if (calls > spills_seen) { spills_seen = calls; buffered = 0; }
			else if (buffered >= c->M) vh_violation("late-spill", "after add #%d %zu key+value bytes are buffered, limit is %zu, and nothing was spilled", i, buffered, c->M);
		}
	}
	VH_COUNT("transitions", c->n);
	/* obtain the result either through the iterator or through mtbl_sorter_write + independent decode */
	struct { uint8_t k[8]; size_t kl; uint8_t *v; size_t vl; } out[8]; int nout = 0; bool toomany = false;
	struct mtbl_iter *it = NULL; int wfd = -1;
	if (c->mode == 0) {
		it = mtbl_sorter_iter(s);
		if (!it) vh_violation("iter", "mtbl_sorter_iter returned NULL");
		const uint8_t *k, *v; size_t kl, vl;
		while (it && mtbl_iter_next(it, &k, &kl, &v, &vl) == mtbl_res_success) { if (nout == 8 || kl > 8) { toomany = true; break; } memcpy(out[nout].k, k, kl); out[nout].kl = kl; out[nout].v = malloc(vl + 1); memcpy(out[nout].v, v, vl); out[nout].vl = vl; nout++; }
		/* once iteration has begun: add and write are refused */
		if (it) {
			if (mtbl_sorter_add(s, (const uint8_t *) "zz", 2, (const uint8_t *) "late", 4) != mtbl_res_failure) vh_violation("add-after-iter", "mtbl_sorter_add succeeded after iteration began");
			int fd2 = tbl_memfd(); struct mtbl_writer *w2 = mtbl_writer_init_fd(fd2, NULL);
			if (mtbl_sorter_write(s, w2) != mtbl_res_failure) vh_violation("write-after-iter", "mtbl_sorter_write succeeded after iteration began");
			mtbl_writer_destroy(&w2);
			size_t l2; uint8_t *b2 = tbl_slurp(fd2, &l2); ic_file f2; if (!ic_decode(b2, l2, &f2)) { if (f2.n_entries != 0) vh_violation("write-after-iter", "refused mtbl_sorter_write still wrote %" PRIu64 " entries", f2.n_entries); ic_free(&f2); } free(b2); close(fd2);
			const uint8_t *k2, *v2; size_t kl2, vl2;
			if (mtbl_iter_next(it, &k2, &kl2, &v2, &vl2) == mtbl_res_success) vh_violation("extra", "iterator produced an entry after its end (key %s) once a late add was attempted", vh_hex(k2, kl2));
			VH_COUNT("transitions", 3);
		}
	} else {
		wfd = tbl_memfd();
		struct mtbl_writer_options *wo = mtbl_writer_options_init(); mtbl_writer_options_set_compression(wo, MTBL_COMPRESSION_NONE);
		struct mtbl_writer *w = mtbl_writer_init_fd(wfd, wo); mtbl_writer_options_destroy(&wo);
		mtbl_res r = mtbl_sorter_write(s, w);
		if (r != mtbl_res_success && c->n > 0) vh_violation("write", "mtbl_sorter_write failed");
		mtbl_writer_destroy(&w);
		size_t fl; uint8_t *fb = tbl_slurp(wfd, &fl); ic_file f;
		if (ic_decode(fb, fl, &f)) vh_violation("write", "file written by mtbl_sorter_write does not decode: %s", f.err);
		else {
			for (size_t b = 0; b < f.nblocks; b++) for (size_t i = 0; i < f.blocks[b].n; i++) { const ic_ent *e = &f.blocks[b].e[i]; if (nout == 8 || e->klen > 8) { toomany = true; break; } memcpy(out[nout].k, e->key, e->klen); out[nout].kl = e->klen; out[nout].v = malloc(e->vlen + 1); memcpy(out[nout].v, e->val, e->vlen); out[nout].vl = e->vlen; nout++; }
			ic_free(&f);
		}
		free(fb); close(wfd);
		if (mtbl_sorter_add(s, (const uint8_t *) "zz", 2, (const uint8_t *) "late", 4) != mtbl_res_failure) vh_violation("add-after-iter", "mtbl_sorter_add succeeded after mtbl_sorter_write");
		VH_COUNT("transitions", 2);
	}
	/* oracle on the result */
	if (toomany) vh_violation("output", "more entries than distinct keys");
	else {
		int expect[3], ne = 0; for (int ki = 0; ki < 3; ki++) { bool has = false; for (int i = 0; i < c->n; i++) if (c->key[i] == ki) has = true; if (has) expect[ne++] = ki; }
		if (nout != ne) vh_violation("output", "result has %d entries, input has %d distinct keys", nout, ne);
		else for (int i = 0; i < ne; i++) {
			if (out[i].kl != SK[expect[i]].n || memcmp(out[i].k, SK[expect[i]].b, out[i].kl)) { vh_violation("output", "entry #%d has key %s, expected %s", i, vh_hex(out[i].k, out[i].kl), vh_hex(SK[expect[i]].b, SK[expect[i]].n)); break; }
			char why[160];
			if (!leaves_ok(c, expect[i], out[i].v, out[i].vl, why, sizeof why)) { vh_violation("output", "key %s: %s (value %.40s)", vh_hex(out[i].k, out[i].kl), why, (char *) out[i].v); break; }
		}
	}
	for (int i = 0; i < nout; i++) free(out[i].v);
	mtbl_iter_destroy(&it);
	mtbl_sorter_destroy(&s);
	pthread_mutex_lock(&mk_mu);
	if (mk_bad[0]) vh_violation("tempdir", "spill file template '%s' is not inside the configured temp dir '%s'", mk_bad, mk_dir);
	int calls = mk_calls;
	pthread_mutex_unlock(&mk_mu);
	if (calls > 1) g_multi_chunk++;
	g_runs++;
	vh_max("max_chunks", calls);
	vh_sig(vh_mix(vh_mix(calls, c->n), c->pool * 4 + c->mode * 2 + c->nomerge));
	free(vb);
	VH_COUNT("cases", 1);
	vh_case_end();
}

int main(int argc, char **argv) {
	vh_init(argc, argv);
	const char *sd = getenv("VERIF_SCRATCH_DIR"); static char dirb[512];
	/* spill files go to a per-process directory on tmpfs when available */
	snprintf(dirb, sizeof dirb, "%s/sort.%d", access("/dev/shm", W_OK) == 0 ? "/dev/shm" : (sd ? sd : "/var/tmp"), (int) getpid());
	mkdir(dirb, 0700); mk_dir = dirb;
	scase c; memset(&c, 0, sizeof c);
	if (vh_case_arg) {
		char ks[32] = "";
		if (sscanf(vh_case_arg, "Z:%d:%zu:%d:%d:%zu:%31s", &c.pool, &c.M, &c.mode, &c.nomerge, &c.vpad, ks) < 5) return 2;
		c.mstyle = c.nomerge / 2; c.nomerge %= 2;
		{ char *kq = strchr(ks, 'k'); if (kq) { c.kp = atoi(kq + 1); *kq = 0; if (kq > ks && kq[-1] == '-') kq[-1] = 0; } }
		c.n = (int) strlen(ks); for (int i = 0; i < c.n; i++) c.key[i] = ks[i] - '0';
		g_kp = c.kp;
		run(&c);
	} else {
		const char *mode = vh_arg(0, "seq");
		uint64_t idx = 0;
		if (!strcmp(mode, "seq") || !strcmp(mode, "pool")) {
			int pool = !strcmp(mode, "pool");
			int maxn = pool ? (vh_thorough ? 5 : 4) : (vh_thorough ? 9 : 6);
			static const int POOLS[] = { 1, 2, 8 };
			for (int kp = 0; kp < 4; kp++)
			for (int pi = 0; pi < (pool ? 3 : 1); pi++)
			for (int n = 0; n <= (kp ? (pool ? 3 : (vh_thorough ? 6 : 4)) : maxn); n++) {
				if (kp && n == 0) continue;
				c.kp = g_kp = kp;
				int total = 1; for (int i = 0; i < n; i++) total *= 3;
				for (int code = 0; code < total; code++) {
					if (!vh_mine(idx++)) continue;
					if (vh_time_up() || vh_too_many()) goto done;
					int x = code; c.n = n; for (int i = 0; i < n; i++) { c.key[i] = x % 3; x /= 3; }
					c.pool = pool ? POOLS[pi] : 0; c.vpad = 0; c.nomerge = 0;
					size_t cost = 0; for (int i = 0; i < n; i++) cost += 16 + SK[c.key[i]].n + 2;
					/* every budget from 1 byte to just above everything-in-memory */
					for (size_t M = 1; M <= cost + 2; M += pool ? 5 : (vh_thorough ? (n > 8 ? 19 : n > 6 ? 7 : 1) : (n > 5 ? 3 : 1))) for (int md = 0; md < 2; md++) { c.M = M; c.mode = md; run(&c); }
					/* shrinking merge results (in-place update paths): unary values of length 2^i, budgets from one entry per chunk to everything in memory */
					if (n && n <= 7) { c.mstyle = 1; size_t cost2 = 0; for (int i = 0; i < n; i++) cost2 += 16 + SK[c.key[i]].n + ((size_t) 1 << i); for (size_t M = 1; M <= cost2 + 2; M += 1 + cost2 / 24) { c.M = M; c.mode = (int) (M & 1); run(&c); } c.mstyle = 0; }
					/* no merge function: legal when all keys are distinct */
					bool distinct = true; for (int i = 0; i < n; i++) for (int j = i + 1; j < n; j++) if (c.key[i] == c.key[j]) distinct = false;
					if (distinct && n) { c.nomerge = 1; for (size_t M = 1; M <= cost + 2; M += 7) { c.M = M; c.mode = 0; run(&c); } c.nomerge = 0; }
				}
			}
			if (vh_shard == 0) vh_sample("keys b,a,b,e,a budget 40 bytes (3 chunks) iterate; fold-tree values");
		} else if (!strcmp(mode, "nohook")) {
			/* genuine 10 MiB floor: 3.5 MiB values, three entries per chunk */
			if (vh_shard == 0) {
				static const int KS[][7] = { {2, 1, 2, 0, 1, 2, 1}, {1, 1, 1, 1, 1, 1, 1}, {0, 1, 2, 0, 1, 2, 0} };
				for (int q = 0; q < 3; q++) for (int md = 0; md < 2; md++) { c.n = 7; memcpy(c.key, KS[q], sizeof KS[q]); c.pool = q == 2 ? 2 : 0; c.M = 10485760; c.mode = md; c.vpad = 3670016; c.nomerge = 0; run(&c); }
				vh_sample("7 entries x 3.5 MiB at the real 10 MiB floor (build without the MTBL_VERIF hook)");
			}
		}
	}
done:
	vh_count("multi_chunk_runs", g_multi_chunk);
	if (g_pool) mtbl_threadpool_destroy(&g_pool);
	int left = count_dir(mk_dir);
	if (left > 0) vh_violation_case("tempfiles", "end-of-shard", "%d spill files were left behind in %s", left, mk_dir);
	rmdir(mk_dir);
	return vh_finish();
}
