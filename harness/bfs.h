/* bfs.h -- generic explicit-state search over real objects.
 * A state is the operation history that reaches it; it is replayed on a freshly built system for every expansion.
 * Deduplication by a 64-bit canonical hash supplied by the harness (private fields of the objects + reference model state).
 * Oracle is evaluated on the new step of every transition; a prefix that passed before and fails on replay, or a canonical hash
 * that differs between two replays of the same history, is reported as an engine error (uncontrolled nondeterminism). */
#ifndef BFS_H
#define BFS_H
#include "vh.h"

#define BFS_MAXD 40
typedef struct bfs_sys {
	void *ctx;
	int (*open)(void *ctx);              /* build a fresh system; 0 = ok, else bfs_fail holds the reason */
	void (*close)(void *ctx);
	bool (*step)(void *ctx, int op);     /* apply op and check the oracle; false = mismatch, bfs_fail holds the reason */
	uint64_t (*canon)(void *ctx);
	int (*alphabet)(void *ctx, int *ops, int max);  /* operations enabled in the current state of the (replayed) system */
	const char *(*explain)(void *ctx, const int *ops, int nops);
	int nops; int ops[BFS_MAXD + 2];      /* current history (for rendering) */
	size_t state_cap; int depth_cap;      /* depth_cap 0 = run to fixpoint */
	const char *viol_key;
} bfs_sys;
struct bfs_sys;
static char bfs_fail[1024];

/* State identity.  White-box build: the harness hashes the private fields of the live objects, so different histories that reach
 * the same state are merged and searches run to a fixpoint.  Black-box build (-DVH_BLACKBOX: chosen by the driver when the white-box
 * view no longer compiles, e.g. after private fields were renamed): no private view is available and nothing is merged -- the
 * identity of a state is its history, and a search that would have run to a fixpoint becomes the full tree up to BFS_BLACKBOX_DEPTH. */
#ifndef BFS_BLACKBOX_DEPTH
#define BFS_BLACKBOX_DEPTH (vh_thorough ? 5 : 3)
#endif
static uint64_t bfs_state_id(struct bfs_sys *S, const int *ops, int n);

static uint64_t bfs_state_id(struct bfs_sys *S, const int *ops, int n) {
#ifdef VH_BLACKBOX
	uint64_t h = vh_mix(0xb1ac, (uint64_t) n); for (int i = 0; i < n; i++) h = vh_mix(h, (uint64_t) ops[i] + 1); return h;
#else
	(void) ops; (void) n; return S->canon(S->ctx);
#endif
}
typedef struct { int parent; int op; uint64_t canon; int depth; } bfs_node;
static bfs_node *bfs_nodes; static size_t bfs_nnodes, bfs_capnodes;
static int bfs_hist(int s, int *ops) { int d = bfs_nodes[s].depth; for (int i = d - 1, c = s; i >= 0; i--) { ops[i] = bfs_nodes[c].op; c = bfs_nodes[c].parent; } return d; }
static void bfs_push(int parent, int op, uint64_t h, int depth) {
	if (bfs_nnodes == bfs_capnodes) { bfs_capnodes = bfs_capnodes ? bfs_capnodes * 2 : 4096; bfs_nodes = realloc(bfs_nodes, bfs_capnodes * sizeof *bfs_nodes); }
	bfs_nodes[bfs_nnodes++] = (bfs_node) { parent, op, h, depth };
}

/* replay one explicit history with the oracle on every step (used by --case replays and by tree mode) */
static bool bfs_replay(bfs_sys *S, const int *ops, int nops, uint64_t *canon_out) {
	vh_case_seq++;          /* progress mark for the watchdog: a search is one "case" but consists of many executions */
	if (S->open(S->ctx)) { S->nops = 0; vh_violation("open", "%s", bfs_fail); return false; }
	bool ok = true;
	for (int i = 0; i < nops; i++) {
		memcpy(S->ops, ops, (i + 1) * sizeof(int)); S->nops = i + 1;
		if (!S->step(S->ctx, ops[i])) { vh_violation(S->viol_key, "%s  [%s]", bfs_fail, S->explain(S->ctx, ops, i + 1)); ok = false; break; }
		VH_COUNT("transitions", 1);
	}
	if (ok && canon_out) *canon_out = bfs_state_id(S, ops, nops);
	S->close(S->ctx);
	VH_COUNT("executions", 1);
	return ok;
}

static bool bfs_run(bfs_sys *S) {
	static vh_set seen; vh_set_free(&seen);
	bfs_nnodes = 0;
	uint64_t h0; S->nops = 0;
	if (!bfs_replay(S, NULL, 0, &h0)) return false;
	bfs_push(-1, 0, h0, 0); vh_set_add(&seen, h0);
	bool ok = true; int maxdepth = 0;
	size_t cap = S->state_cap ? S->state_cap : 100000;
	int depth_cap = S->depth_cap;
#ifdef VH_BLACKBOX
	if (!depth_cap || depth_cap > BFS_BLACKBOX_DEPTH) depth_cap = BFS_BLACKBOX_DEPTH;
	VH_COUNT("blackbox_searches", 1);
#endif
	for (size_t s = 0; s < bfs_nnodes && ok; s++) {
		if ((s & 31) == 0 && vh_time_up()) { VH_COUNT("searches_stopped_by_budget", 1); break; }
		int base[BFS_MAXD + 2]; int d = bfs_hist((int) s, base);
		if (d >= BFS_MAXD || (depth_cap && d >= depth_cap)) { if (!depth_cap) VH_COUNT("bfs_depth_cap_hit", 1); continue; }
		/* find the alphabet of this state */
		int alpha[512]; int na;
		if (S->open(S->ctx)) { vh_violation("open", "%s", bfs_fail); return false; }
		bool pre = true; for (int i = 0; i < d && pre; i++) pre = S->step(S->ctx, base[i]);
		if (!pre || bfs_state_id(S, base, d) != bfs_nodes[s].canon) { printf("@error \"bfs: replay of a checked history diverged (%s)\"\n", pre ? "canonical state differs" : "oracle now fails"); S->close(S->ctx); return false; }
		na = S->alphabet(S->ctx, alpha, 512);
		S->close(S->ctx);
		for (int ai = 0; ai < na; ai++) {
			vh_case_seq++;
			if (S->open(S->ctx)) { vh_violation("open", "%s", bfs_fail); return false; }
			pre = true; for (int i = 0; i < d && pre; i++) pre = S->step(S->ctx, base[i]);
			if (!pre) { printf("@error \"bfs: replay of a checked history failed\"\n"); S->close(S->ctx); return false; }
			memcpy(S->ops, base, d * sizeof(int)); S->ops[d] = alpha[ai]; S->nops = d + 1;
			if (!S->step(S->ctx, alpha[ai])) { vh_violation(S->viol_key, "%s  [%s]", bfs_fail, S->explain(S->ctx, S->ops, d + 1)); S->close(S->ctx); ok = false; break; }
			uint64_t h = bfs_state_id(S, S->ops, d + 1);
			S->close(S->ctx);
			VH_COUNT("transitions", 1); VH_COUNT("executions", 1);
			if (vh_set_add(&seen, h)) {
				if (bfs_nnodes >= cap) { VH_COUNT("bfs_state_cap_hit", 1); s = bfs_nnodes; break; }
				bfs_push((int) s, alpha[ai], h, d + 1);
				if (d + 1 > maxdepth) maxdepth = d + 1;
			}
		}
	}
	VH_COUNT("states", bfs_nnodes); VH_COUNT("searches", 1); vh_max("max_bfs_depth", maxdepth); vh_max("max_states_per_search", bfs_nnodes);
	vh_set_free(&seen);
	return ok;
}

/* all histories up to depth D without deduplication (alphabet re-evaluated along the way) */
static bool bfs_tree_rec(bfs_sys *S, int *ops, int d, int D) {
	if (!bfs_replay(S, ops, d, NULL)) return false;
	VH_COUNT("states", 1);
	if (d == D) return true;
	int alpha[512];
	if (S->open(S->ctx)) return false;
	for (int i = 0; i < d; i++) S->step(S->ctx, ops[i]);
	int na = S->alphabet(S->ctx, alpha, 512);
	S->close(S->ctx);
	for (int ai = 0; ai < na; ai++) { ops[d] = alpha[ai]; if (!bfs_tree_rec(S, ops, d + 1, D)) return false; }
	return true;
}
static bool bfs_tree(bfs_sys *S, int D) { int ops[BFS_MAXD + 2]; bool r = bfs_tree_rec(S, ops, 0, D); VH_COUNT("searches", 1); return r; }
#endif
